------------------------------- MODULE Labels -------------------------------
(***************************************************************************)
(* Plot labels of visualize(aliases=...) - C17 (and the label part of C14). *)
(*   T   module names (component sequences)                                 *)
(*   A   alias map: aliased module name -> alias (an opaque token; the      *)
(*       alias text may contain dots or regex metacharacters, which is why  *)
(*       the specification never looks inside it)                           *)
(* A label is the pair <<source, rest>>: source is the aliased module whose *)
(* alias heads the label (or <<>> for "no alias applies": the full name is  *)
(* kept), rest are the remaining name components.  The renderer in the      *)
(* harness turns <<source, rest>> into text (alias "." rest joined by ".").  *)
(***************************************************************************)
EXTENDS Names

NoAlias == <<>>

\* aliased modules that are the module itself or one of its ancestor packages - whole components only
AliasedAbove(A, m) == {a \in DOMAIN A : Anc(a, m)}

\* the most specific one: the longest (ancestors of one module are totally ordered by length)
MostSpecific(S) == CHOOSE a \in S : \A b \in S : Len(b) <= Len(a)

LabelSource(A, m) == IF AliasedAbove(A, m) = {} THEN NoAlias ELSE MostSpecific(AliasedAbove(A, m))
LabelRest(A, m)   == LET s == LabelSource(A, m) IN
                     IF s = NoAlias THEN m ELSE SubSeq(m, Len(s) + 1, Len(m))
Label(A, m)       == <<LabelSource(A, m), LabelRest(A, m)>>

\* aliases given for modules that do not exist: the call must be rejected naming (one of) them
UnknownAliased(T, A) == DOMAIN A \ T

\* outcome of visualize(aliases = A) on an architecture with modules T
LabelMap(T, A) == [m \in T |-> Label(A, m)]
=============================================================================
