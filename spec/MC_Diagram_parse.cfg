SPECIFICATION Spec
CONSTANTS
  Mode = "parse"
  MaxLines = 2
  EMIT = FALSE
  Dotted = FALSE
INVARIANT MeaningIsCanonical
PROPERTY OrderAndFormIndependent
CHECK_DEADLOCK FALSE
