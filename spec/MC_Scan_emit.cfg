SPECIFICATION Spec
CONSTANTS
  MaxSteps = 6
  EMIT = TRUE
VIEW View
INVARIANT EmitProject
CHECK_DEADLOCK FALSE
