SPECIFICATION Spec
CONSTANTS
  World = "W5"
  EMIT = FALSE
INVARIANT TypeOK
INVARIANT RenamingInvariant
CHECK_DEADLOCK FALSE
