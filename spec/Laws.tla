-------------------------------- MODULE Laws --------------------------------
(***************************************************************************)
(* The rule algebra of C12 (and the conjunction law of C11) for ARBITRARY   *)
(* denotations D, import relations I and rules r - proved with the TLA+     *)
(* proof system, not only model-checked on bounded worlds.                  *)
(*                                                                         *)
(* The operators below are a textual copy of the ones in RuleSem.tla (that  *)
(* module extends the community modules, which tlapm does not ship);        *)
(* MC_RuleSem checks with TLC that Laws!Pass and RuleSem!Pass coincide on   *)
(* every rule and import relation of the bounded model, which binds the     *)
(* copy to the original.                                                    *)
(***************************************************************************)


From(r, e) == IF r.dir = "import" THEN e[1] ELSE e[2]
To(r, e)   == IF r.dir = "import" THEN e[2] ELSE e[1]

EdgeSet(D, I, r, s, o) == {e \in I : From(r, e) \in D[s] /\ To(r, e) \in D[o]}
ObjAll(D, r)           == UNION {D[o] : o \in r.objs}
OtherSet(D, I, r, s)   == {e \in I : /\ From(r, e) \in D[s]
                                     /\ To(r, e) \notin D[s]
                                     /\ To(r, e) \notin ObjAll(D, r)}

ReqEdge(r)     == r.verb \in {"should", "should_only"} /\ ~r.exc
ReqOther(r)    == r.verb \in {"should", "should_only"} /\ r.exc
ForbidEdge(r)  == (r.verb = "should_not" /\ ~r.exc) \/ (r.verb = "should_only" /\ r.exc)
ForbidOther(r) == (r.verb = "should_not" /\ r.exc) \/ (r.verb = "should_only" /\ ~r.exc)

RealisedN(D, I, r) ==
    (IF ForbidEdge(r)  THEN UNION {UNION {EdgeSet(D, I, r, s, o) : o \in r.objs} : s \in r.subs} ELSE {})
      \cup
    (IF ForbidOther(r) THEN UNION {OtherSet(D, I, r, s) : s \in r.subs} ELSE {})

MissingEdgeN(D, I, r) ==
    IF ReqEdge(r)
    THEN {<<s, {o \in r.objs : EdgeSet(D, I, r, s, o) = {}}>> :
             s \in {s \in r.subs : \E o \in r.objs : EdgeSet(D, I, r, s, o) = {}}}
    ELSE {}

MissingOtherN(D, I, r) ==
    IF ReqOther(r)
    THEN {<<s, r.objs>> : s \in {s \in r.subs : OtherSet(D, I, r, s) = {}}}
    ELSE {}

Pass(D, I, r) == RealisedN(D, I, r) = {} /\ MissingEdgeN(D, I, r) = {} /\ MissingOtherN(D, I, r) = {}

OtherDir(d) == IF d = "import" THEN "imported" ELSE "import"
Dual(r)     == [r EXCEPT !.dir = OtherDir(r.dir), !.subs = r.objs, !.objs = r.subs]
WithVerb(r, v, x) == [r EXCEPT !.verb = v, !.exc = x]

IsRule(r) == /\ r = [verb |-> r.verb, dir |-> r.dir, exc |-> r.exc, any |-> r.any, subs |-> r.subs, objs |-> r.objs]
             /\ r.verb \in {"should", "should_only", "should_not"}
             /\ r.dir \in {"import", "imported"}
             /\ r.exc \in BOOLEAN

(* ------------------------------------------------------ set-theory facts *)
LEMMA ImageEmpty == ASSUME NEW S, NEW f(_) PROVE ({f(x) : x \in S} = {}) <=> (S = {})
OBVIOUS
LEMMA FilterEmpty == ASSUME NEW S, NEW P(_) PROVE ({x \in S : P(x)} = {}) <=> (\A x \in S : ~P(x))
OBVIOUS
LEMMA Union1Empty == ASSUME NEW A, NEW f(_) PROVE (UNION {f(a) : a \in A} = {}) <=> (\A a \in A : f(a) = {})
OBVIOUS

LEMMA RealisedEdgeEmpty ==
    ASSUME NEW D, NEW I, NEW r
    PROVE  (UNION {UNION {EdgeSet(D, I, r, s, o) : o \in r.objs} : s \in r.subs} = {})
              <=> \A s \in r.subs : \A o \in r.objs : EdgeSet(D, I, r, s, o) = {}
<1>1. \A s : (UNION {EdgeSet(D, I, r, s, o) : o \in r.objs} = {}) <=> (\A o \in r.objs : EdgeSet(D, I, r, s, o) = {})
      OBVIOUS
<1> QED BY <1>1
LEMMA RealisedOtherEmpty ==
    ASSUME NEW D, NEW I, NEW r
    PROVE  (UNION {OtherSet(D, I, r, s) : s \in r.subs} = {}) <=> \A s \in r.subs : OtherSet(D, I, r, s) = {}
OBVIOUS
LEMMA MissingEdgeEmpty ==
    ASSUME NEW D, NEW I, NEW r
    PROVE  ({<<s, {o \in r.objs : EdgeSet(D, I, r, s, o) = {}}>> :
                s \in {s \in r.subs : \E o \in r.objs : EdgeSet(D, I, r, s, o) = {}}} = {})
              <=> \A s \in r.subs : \A o \in r.objs : EdgeSet(D, I, r, s, o) # {}
<1>1. ({s \in r.subs : \E o \in r.objs : EdgeSet(D, I, r, s, o) = {}} = {})
         <=> \A s \in r.subs : \A o \in r.objs : EdgeSet(D, I, r, s, o) # {}
      OBVIOUS
<1> QED BY <1>1
LEMMA MissingOtherEmpty ==
    ASSUME NEW D, NEW I, NEW r
    PROVE  ({<<s, r.objs>> : s \in {s \in r.subs : OtherSet(D, I, r, s) = {}}} = {})
              <=> \A s \in r.subs : OtherSet(D, I, r, s) # {}
<1>1. ({s \in r.subs : OtherSet(D, I, r, s) = {}} = {}) <=> \A s \in r.subs : OtherSet(D, I, r, s) # {}
      OBVIOUS
<1> QED BY <1>1

(* ---------------------------------------------------- Pass, spelled out *)
LEMMA PassShould ==
    ASSUME NEW D, NEW I, NEW r, IsRule(r), r.verb = "should", ~r.exc
    PROVE  Pass(D, I, r) <=> \A s \in r.subs : \A o \in r.objs : EdgeSet(D, I, r, s, o) # {}
BY RealisedEdgeEmpty, RealisedOtherEmpty, MissingEdgeEmpty, MissingOtherEmpty DEF Pass, RealisedN, MissingEdgeN, MissingOtherN, ReqEdge, ReqOther, ForbidEdge, ForbidOther, IsRule

LEMMA PassShouldNot ==
    ASSUME NEW D, NEW I, NEW r, IsRule(r), r.verb = "should_not", ~r.exc
    PROVE  Pass(D, I, r) <=> \A s \in r.subs : \A o \in r.objs : EdgeSet(D, I, r, s, o) = {}
BY RealisedEdgeEmpty, RealisedOtherEmpty, MissingEdgeEmpty, MissingOtherEmpty DEF Pass, RealisedN, MissingEdgeN, MissingOtherN, ReqEdge, ReqOther, ForbidEdge, ForbidOther, IsRule

LEMMA PassShouldExcept ==
    ASSUME NEW D, NEW I, NEW r, IsRule(r), r.verb = "should", r.exc
    PROVE  Pass(D, I, r) <=> \A s \in r.subs : OtherSet(D, I, r, s) # {}
BY RealisedEdgeEmpty, RealisedOtherEmpty, MissingEdgeEmpty, MissingOtherEmpty DEF Pass, RealisedN, MissingEdgeN, MissingOtherN, ReqEdge, ReqOther, ForbidEdge, ForbidOther, IsRule

LEMMA PassShouldNotExcept ==
    ASSUME NEW D, NEW I, NEW r, IsRule(r), r.verb = "should_not", r.exc
    PROVE  Pass(D, I, r) <=> \A s \in r.subs : OtherSet(D, I, r, s) = {}
BY RealisedEdgeEmpty, RealisedOtherEmpty, MissingEdgeEmpty, MissingOtherEmpty DEF Pass, RealisedN, MissingEdgeN, MissingOtherN, ReqEdge, ReqOther, ForbidEdge, ForbidOther, IsRule

LEMMA PassShouldOnly ==
    ASSUME NEW D, NEW I, NEW r, IsRule(r), r.verb = "should_only", ~r.exc
    PROVE  Pass(D, I, r) <=> /\ \A s \in r.subs : \A o \in r.objs : EdgeSet(D, I, r, s, o) # {}
                             /\ \A s \in r.subs : OtherSet(D, I, r, s) = {}
BY RealisedEdgeEmpty, RealisedOtherEmpty, MissingEdgeEmpty, MissingOtherEmpty DEF Pass, RealisedN, MissingEdgeN, MissingOtherN, ReqEdge, ReqOther, ForbidEdge, ForbidOther, IsRule

LEMMA PassShouldOnlyExcept ==
    ASSUME NEW D, NEW I, NEW r, IsRule(r), r.verb = "should_only", r.exc
    PROVE  Pass(D, I, r) <=> /\ \A s \in r.subs : OtherSet(D, I, r, s) # {}
                             /\ \A s \in r.subs : \A o \in r.objs : EdgeSet(D, I, r, s, o) = {}
BY RealisedEdgeEmpty, RealisedOtherEmpty, MissingEdgeEmpty, MissingOtherEmpty DEF Pass, RealisedN, MissingEdgeN, MissingOtherN, ReqEdge, ReqOther, ForbidEdge, ForbidOther, IsRule

(* ------------------------------------------------------------ duality *)
LEMMA EdgeSetDual ==
    ASSUME NEW D, NEW I, NEW r, NEW s, NEW o, IsRule(r)
    PROVE  EdgeSet(D, I, Dual(r), o, s) = EdgeSet(D, I, r, s, o)
BY DEF EdgeSet, Dual, From, To, OtherDir, IsRule

LEMMA DualIsRule == ASSUME NEW r, IsRule(r) PROVE IsRule(Dual(r)) /\ Dual(r).verb = r.verb /\ Dual(r).exc = r.exc
                                                  /\ Dual(r).subs = r.objs /\ Dual(r).objs = r.subs
BY DEF IsRule, Dual, OtherDir

THEOREM Duality ==
    ASSUME NEW D, NEW I, NEW r, IsRule(r), r.verb \in {"should", "should_not"}, ~r.exc
    PROVE  Pass(D, I, r) <=> Pass(D, I, Dual(r))
<1>1. \A s, o : EdgeSet(D, I, Dual(r), o, s) = EdgeSet(D, I, r, s, o) BY EdgeSetDual
<1>2. CASE r.verb = "should"
      BY <1>1, <1>2, DualIsRule, PassShould
<1>3. CASE r.verb = "should_not"
      BY <1>1, <1>3, DualIsRule, PassShouldNot
<1> QED BY <1>2, <1>3

(* ----------------------------------------------------------- negation *)
LEMMA WithVerbFacts ==
    ASSUME NEW r, IsRule(r), NEW v \in {"should", "should_only", "should_not"}, NEW x \in BOOLEAN
    PROVE  /\ IsRule(WithVerb(r, v, x)) /\ WithVerb(r, v, x).verb = v /\ WithVerb(r, v, x).exc = x
           /\ WithVerb(r, v, x).subs = r.subs /\ WithVerb(r, v, x).objs = r.objs /\ WithVerb(r, v, x).dir = r.dir
BY DEF IsRule, WithVerb

LEMMA SetsIgnoreVerb ==
    ASSUME NEW D, NEW I, NEW r, IsRule(r), NEW v \in {"should", "should_only", "should_not"}, NEW x \in BOOLEAN
    PROVE  /\ \A s, o : EdgeSet(D, I, WithVerb(r, v, x), s, o) = EdgeSet(D, I, r, s, o)
           /\ \A s : OtherSet(D, I, WithVerb(r, v, x), s) = OtherSet(D, I, r, s)
BY WithVerbFacts DEF EdgeSet, OtherSet, ObjAll, From, To

THEOREM Negation ==      \* one subject, one object
    ASSUME NEW D, NEW I, NEW r, IsRule(r), r.verb = "should", NEW s, NEW o, r.subs = {s}, r.objs = {o}
    PROVE  Pass(D, I, r) <=> ~Pass(D, I, WithVerb(r, "should_not", r.exc))
<1> DEFINE n == WithVerb(r, "should_not", r.exc)
<1>0. r.exc \in BOOLEAN BY DEF IsRule
<1>1. IsRule(n) /\ n.verb = "should_not" /\ n.exc = r.exc /\ n.subs = {s} /\ n.objs = {o} BY <1>0, WithVerbFacts
<1>2. (\A ss, oo : EdgeSet(D, I, n, ss, oo) = EdgeSet(D, I, r, ss, oo)) /\ (\A ss : OtherSet(D, I, n, ss) = OtherSet(D, I, r, ss))
      BY <1>0, SetsIgnoreVerb
<1>3. CASE ~r.exc
      BY <1>1, <1>2, <1>3, PassShould, PassShouldNot
<1>4. CASE r.exc
      BY <1>1, <1>2, <1>4, PassShouldExcept, PassShouldNotExcept
<1> QED BY <1>3, <1>4

(* ------------------------------------------------------ decomposition *)
THEOREM Decomposition ==
    ASSUME NEW D, NEW I, NEW r, IsRule(r), r.verb = "should_only"
    PROVE  Pass(D, I, r) <=> (Pass(D, I, WithVerb(r, "should", r.exc)) /\ Pass(D, I, WithVerb(r, "should_not", ~r.exc)))
<1> DEFINE a == WithVerb(r, "should", r.exc)
           b == WithVerb(r, "should_not", ~r.exc)
<1>0. r.exc \in BOOLEAN /\ (~r.exc) \in BOOLEAN BY DEF IsRule
<1>1. IsRule(a) /\ a.verb = "should" /\ a.exc = r.exc /\ a.subs = r.subs /\ a.objs = r.objs BY <1>0, WithVerbFacts
<1>2. IsRule(b) /\ b.verb = "should_not" /\ b.exc = ~r.exc /\ b.subs = r.subs /\ b.objs = r.objs BY <1>0, WithVerbFacts
<1>3. (\A ss, oo : EdgeSet(D, I, a, ss, oo) = EdgeSet(D, I, r, ss, oo)) /\ (\A ss : OtherSet(D, I, a, ss) = OtherSet(D, I, r, ss))
      BY <1>0, SetsIgnoreVerb
<1>4. (\A ss, oo : EdgeSet(D, I, b, ss, oo) = EdgeSet(D, I, r, ss, oo)) /\ (\A ss : OtherSet(D, I, b, ss) = OtherSet(D, I, r, ss))
      BY <1>0, SetsIgnoreVerb
<1>5. CASE ~r.exc
      BY <1>1, <1>2, <1>3, <1>4, <1>5, PassShouldOnly, PassShould, PassShouldNotExcept
<1>6. CASE r.exc
      BY <1>1, <1>2, <1>3, <1>4, <1>6, PassShouldOnlyExcept, PassShouldExcept, PassShouldNot
<1> QED BY <1>5, <1>6

(* ------------------------------------------------------- monotonicity *)
LEMMA SetsGrow ==
    ASSUME NEW D, NEW I, NEW J, I \subseteq J, NEW r
    PROVE  /\ \A s, o : EdgeSet(D, I, r, s, o) \subseteq EdgeSet(D, J, r, s, o)
           /\ \A s : OtherSet(D, I, r, s) \subseteq OtherSet(D, J, r, s)
BY DEF EdgeSet, OtherSet

THEOREM MonotoneShould ==
    ASSUME NEW D, NEW I, NEW J, I \subseteq J, NEW r, IsRule(r), r.verb = "should", Pass(D, I, r)
    PROVE  Pass(D, J, r)
<1>0. (\A s, o : EdgeSet(D, I, r, s, o) \subseteq EdgeSet(D, J, r, s, o)) /\ (\A s : OtherSet(D, I, r, s) \subseteq OtherSet(D, J, r, s))
      BY SetsGrow
<1>1. CASE ~r.exc
   <2>1. \A s \in r.subs : \A o \in r.objs : EdgeSet(D, I, r, s, o) # {} BY <1>1, PassShould
   <2>2. \A s \in r.subs : \A o \in r.objs : EdgeSet(D, J, r, s, o) # {} BY <2>1, <1>0
   <2> QED BY <2>2, <1>1, PassShould
<1>2. CASE r.exc
   <2>1. \A s \in r.subs : OtherSet(D, I, r, s) # {} BY <1>2, PassShouldExcept
   <2>2. \A s \in r.subs : OtherSet(D, J, r, s) # {} BY <2>1, <1>0
   <2> QED BY <2>2, <1>2, PassShouldExcept
<1> QED BY <1>1, <1>2

THEOREM MonotoneShouldNot ==
    ASSUME NEW D, NEW I, NEW J, I \subseteq J, NEW r, IsRule(r), r.verb = "should_not", ~Pass(D, I, r)
    PROVE  ~Pass(D, J, r)
<1>0. (\A s, o : EdgeSet(D, I, r, s, o) \subseteq EdgeSet(D, J, r, s, o)) /\ (\A s : OtherSet(D, I, r, s) \subseteq OtherSet(D, J, r, s))
      BY SetsGrow
<1>1. CASE ~r.exc
   <2>1. \E s \in r.subs : \E o \in r.objs : EdgeSet(D, I, r, s, o) # {} BY <1>1, PassShouldNot
   <2>2. \E s \in r.subs : \E o \in r.objs : EdgeSet(D, J, r, s, o) # {} BY <2>1, <1>0
   <2> QED BY <2>2, <1>1, PassShouldNot
<1>2. CASE r.exc
   <2>1. \E s \in r.subs : OtherSet(D, I, r, s) # {} BY <1>2, PassShouldNotExcept
   <2>2. \E s \in r.subs : OtherSet(D, J, r, s) # {} BY <2>1, <1>0
   <2> QED BY <2>2, <1>2, PassShouldNotExcept
<1> QED BY <1>1, <1>2

(* ------------------------------------------- batch = conjunction (C11) *)
THEOREM BatchSubjectsShouldNot ==
    ASSUME NEW D, NEW I, NEW r, IsRule(r), r.verb = "should_not", ~r.exc
    PROVE  Pass(D, I, r) <=> \A s \in r.subs : Pass(D, I, [r EXCEPT !.subs = {s}])
<1>1. \A s : IsRule([r EXCEPT !.subs = {s}]) /\ [r EXCEPT !.subs = {s}].verb = "should_not" /\ ~[r EXCEPT !.subs = {s}].exc
            /\ [r EXCEPT !.subs = {s}].subs = {s} /\ [r EXCEPT !.subs = {s}].objs = r.objs
      BY DEF IsRule
<1>2. \A s, ss, oo : EdgeSet(D, I, [r EXCEPT !.subs = {s}], ss, oo) = EdgeSet(D, I, r, ss, oo)
      BY DEF EdgeSet, From, To, IsRule
<1>3. \A s : Pass(D, I, [r EXCEPT !.subs = {s}]) <=> \A o \in r.objs : EdgeSet(D, I, r, s, o) = {}
      BY <1>1, <1>2, PassShouldNot
<1> QED BY <1>3, PassShouldNot
=============================================================================
