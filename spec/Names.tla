------------------------------- MODULE Names -------------------------------
(***************************************************************************)
(* Module names are SEQUENCES OF COMPONENTS (<<"pkg","a","x">>), never     *)
(* dotted strings.  Every notion of identity the specification has         *)
(* (sub-module-of, layer membership, alias ancestry, internal/external) is *)
(* IsPrefix on component sequences, so the specification is invariant      *)
(* under injective component renaming by construction (C14).               *)
(***************************************************************************)
EXTENDS Sequences, SequencesExt, FiniteSets, Naturals

Anc(a, b)       == IsPrefix(a, b)                 \* a is b or an ancestor package of b
StrictAnc(a, b) == IsStrictPrefix(a, b)
Related(a, b)   == Anc(a, b) \/ Anc(b, a)
Desc(T, m)      == {n \in T : Anc(m, n)}          \* m and all its descendants inside T
StrictDesc(T,m) == {n \in T : StrictAnc(m, n)}
Parents(m)      == {SubSeq(m, 1, i) : i \in 1..(Len(m) - 1)}
Trunc(m, k)     == IF Len(m) <= k THEN m ELSE SubSeq(m, 1, k)
DirectChild(p,c)== Len(c) = Len(p) + 1 /\ Anc(p, c)

\* A module set is a tree when every proper ancestor below the root is present.
TreeClosed(T)   == \A m \in T : \A p \in Parents(m) : p \in T

SeqToSet(s)     == {s[i] : i \in DOMAIN s}

\* Renaming of path components by a function rho on components (C14).  Every operator above is built from
\* equality of components only, so it commutes with any INJECTIVE rho.
RenName(rho, m)  == [i \in DOMAIN m |-> rho[m[i]]]
RenNames(rho, S) == {RenName(rho, m) : m \in S}
RenEdges(rho, I) == {<<RenName(rho, e[1]), RenName(rho, e[2])>> : e \in I}
Injective(rho)   == \A x, y \in DOMAIN rho : rho[x] = rho[y] => x = y
=============================================================================
