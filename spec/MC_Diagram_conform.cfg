SPECIFICATION Spec
CONSTANTS
  Mode = "conform"
  MaxLines = 0
  EMIT = FALSE
  Dotted = FALSE
INVARIANT ConformsIsRules
CHECK_DEADLOCK FALSE
