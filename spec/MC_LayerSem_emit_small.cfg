SPECIFICATION Spec
CONSTANTS
  EMIT = TRUE
  Small = TRUE
INVARIANT EmitState
CHECK_DEADLOCK FALSE
