SPECIFICATION Spec
CONSTANTS
  Which = "rule"
  MaxLen = 3
  EMIT = TRUE
INVARIANT EmitHist
CHECK_DEADLOCK FALSE
