------------------------------ MODULE MC_Graph ------------------------------
(***************************************************************************)
(* Bounded instance of Graph: a tree of six names with a gap-free spine    *)
(* and two names that are no modules, every module list with at most       *)
(* MaxMods entries (parents may be left implicit), every import list with  *)
(* at most MaxImps entries, every level limit, and EVERY processing order  *)
(* of both lists.                                                          *)
(***************************************************************************)
EXTENDS Graph, Json

CONSTANTS EMIT

R == <<"r">>  RA == <<"r","a">>  RAX == <<"r","a","x">>  RAXP == <<"r","a","x","p">>
RB == <<"r","b">>  RBY == <<"r","b","y">>
GHOST == <<"r","a","ghost">>          \* a name below a package that is no module ('from r.a import ghost' of a function)
FN == <<"r","b","y","fn">>            \* a name below a module file
MUniverse == {R, RA, RAX, RAXP, RB, RBY}
MCand == {e \in {RA, RAX, RAXP, RBY} \X (MUniverse \cup {GHOST, FN}) : e[1] # e[2]}

\* (R) the input and the graph that must come out, once per input (all orders end in the same state)
EmitBuild == (EMIT /\ Done) => PrintT("BUILD " \o ToJson([mods |-> mods, imps |-> imps, keep |-> keep,
                                                           nodes |-> nodes, hier |-> Hier, imports |-> Imports]))
=============================================================================
