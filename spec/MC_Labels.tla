----------------------------- MODULE MC_Labels -----------------------------
(***************************************************************************)
(* Bounded model for C17: an alias map that grows one alias at a time over  *)
(* a fixed module tree (plus names of modules that do not exist).  Every    *)
(* reachable state is one call visualize(aliases = A).                      *)
(***************************************************************************)
EXTENDS Labels, TLC, Json

CONSTANTS EMIT, Big

T == IF Big
     THEN {<<"r">>, <<"r","a">>, <<"r","a","x">>, <<"r","a","x","p">>, <<"r","a","y">>, <<"r","b">>, <<"r","b","z">>, <<"r","c">>}
     ELSE {<<"r">>, <<"r","a">>, <<"r","a","x">>, <<"r","a","y">>, <<"r","b">>, <<"r","b","z">>}
Ghosts == {<<"r","q">>, <<"r","a","q">>}      \* never modules of the architecture

VARIABLE aliased        \* DOMAIN of the alias map; the alias of m is the token m itself
vars == <<aliased>>
A == [m \in aliased |-> m]

Init == aliased = {}
AddAlias(m) == m \notin aliased /\ aliased' = aliased \cup {m}
Next == \E m \in T \cup Ghosts : AddAlias(m)
Spec == Init /\ [][Next]_vars

TypeOK == aliased \subseteq T \cup Ghosts

\* every module is labelled exactly once (LabelMap is a function on T) and recomposes to its own name
Total == DOMAIN LabelMap(T, A) = T
Recompose == \A m \in T : LET s == LabelSource(A, m) IN
                 IF s = NoAlias THEN LabelRest(A, m) = m ELSE s \o LabelRest(A, m) = m
\* a module under no aliased module keeps its full name
Unaliased == \A m \in T : (\A a \in aliased : ~Anc(a, m)) => Label(A, m) = <<NoAlias, m>>
\* the source is an aliased ancestor-or-self, and no aliased module lies strictly between it and the module
Nearest == \A m \in T : LET s == LabelSource(A, m) IN
              s # NoAlias => /\ s \in aliased /\ Anc(s, m)
                             /\ \A a \in aliased : (Anc(a, m) /\ a # s) => StrictAnc(a, s)
\* an aliased module is labelled by its own alias alone
SelfAlias == \A m \in T \cap aliased : Label(A, m) = <<m, <<>>>>
\* a new alias changes exactly the labels of the modules at or below it that had no more specific alias
Locality == [][\A a \in aliased' \ aliased : \A m \in T :
                  LET A2 == [x \in aliased' |-> x] IN
                  IF Anc(a, m) /\ (LabelSource(A, m) = NoAlias \/ StrictAnc(LabelSource(A, m), a))
                  THEN Label(A2, m) = <<a, SubSeq(m, Len(a) + 1, Len(m))>>
                  ELSE Label(A2, m) = Label(A, m)]_vars
\* aliases of non-existing modules are exactly the ghosts chosen so far
Unknown == UnknownAliased(T, A) = aliased \cap Ghosts

EmitState == EMIT => PrintT("STATE " \o ToJson([aliased |-> SetToSeq(aliased), modules |-> SetToSeq(T)]))
=============================================================================
