----------------------------- MODULE MC_LayerSem -----------------------------
(***************************************************************************)
(* Bounded model for C05: a growing import relation over a world with five  *)
(* unrelated top-level packages (two with children), every partition of a   *)
(* fixed set of packages into layers from a small family, every layer rule. *)
(***************************************************************************)
EXTENDS LayerSem, TLC, Json

CONSTANTS EMIT, Small

RA == <<"r","a">>  RB == <<"r","b">>  RC == <<"r","c">>  RD == <<"r","d">>
T == IF Small THEN {<<"r">>, RA, <<"r","a","x">>, RB, RC}
     ELSE {<<"r">>, RA, <<"r","a","x">>, RB, <<"r","b","z">>, RC}
Leaves == {m \in T : StrictDesc(T, m) = {}}
Cand == {e \in Leaves \X (T \ {<<"r">>}) : e[1] # e[2] /\ ~Anc(e[2], e[1])}

\* layer maps: two to three layers, some module in no layer, one layer with two packages
Maps == IF Small
        THEN { ("X" :> {RA} @@ "Y" :> {RB}),
               ("X" :> {RA, RC} @@ "Y" :> {RB}),
               ("X" :> {RA} @@ "Y" :> {RB} @@ "Z" :> {RC}) }
        ELSE { ("X" :> {RA} @@ "Y" :> {RB}),
               ("X" :> {RA, RC} @@ "Y" :> {RB}),
               ("X" :> {RA} @@ "Y" :> {RB} @@ "Z" :> {RC}),
               ("X" :> {<<"r","a","x">>} @@ "Y" :> {RB}),
               ("X" :> {RA} @@ "Y" :> {<<"r","b","z">>, RC}) }

VARIABLE imports
vars == <<imports>>
Init == imports = {}
Next == \E e \in Cand : e \notin imports /\ imports' = imports \cup {e}
Spec == Init /\ [][Next]_vars

Shape == [verb : Verbs, dir : Dirs, exc : BOOLEAN]
Rules(L) == UNION {{[verb |-> sh.verb, dir |-> sh.dir, exc |-> sh.exc, any |-> FALSE, sub |-> s, objs |-> O] :
                       sh \in Shape, O \in (SUBSET (DOMAIN L \ {s})) \ {{}}} : s \in DOMAIN L}
            \cup {[verb |-> "should_not", dir |-> d, exc |-> FALSE, any |-> TRUE, sub |-> s, objs |-> {}] :
                d \in Dirs, s \in DOMAIN L}

P(L, r) == LPass(T, L, imports, r)

AllWF == \A L \in Maps : LayersWF(T, L) /\ \A r \in Rules(L) : LRuleWF(L, r)

\* C05: layers the rule does not mention are treated exactly like modules in no layer
UnmentionedIsNoLayer == \A L \in Maps : \A r \in Rules(L) :
                            LOutcome(T, L, imports, r) = LOutcome(T, Restricted(L, r), imports, r)
\* C05: imports inside one layer never count - neither as violation nor as required access
SameLayerNeverCounts ==
    [][\A e \in imports' \ imports : \A L \in Maps :
          (LayerOf(T, L, e[1]) # "" /\ LayerOf(T, L, e[1]) = LayerOf(T, L, e[2])) =>
              \A r \in Rules(L) : LOutcome(T, L, imports, r) = LOutcome(T, L, imports', r)]_vars
\* one unit per layer: the layer rule equals the module rule on the layer's listed modules read jointly
LWithVerb(r, v, x) == [r EXCEPT !.verb = v, !.exc = x]
LDecomp == \A L \in Maps : \A r \in Rules(L) : (r.verb = "should_only" /\ ~r.any) =>
              P(L, r) = (P(L, LWithVerb(r, "should", r.exc)) /\ P(L, LWithVerb(r, "should_not", ~r.exc)))
LNegation == \A L \in Maps : \A r \in Rules(L) : (r.verb = "should" /\ ~r.any /\ Cardinality(r.objs) = 1) =>
              P(L, r) # P(L, LWithVerb(r, "should_not", r.exc))
\* for single-module layers the layer rule IS the module rule on those modules
SingletonLayersAreModuleRules ==
    \A L \in Maps : \A r \in Rules(L) :
        ((\A n \in Mentioned(r) : Cardinality(L[n]) = 1) /\ ~r.any) =>
            LET F(n) == [kind |-> "named", name |-> CHOOSE m \in L[n] : TRUE]
                mr == [verb |-> r.verb, dir |-> r.dir, exc |-> r.exc, any |-> FALSE,
                       subs |-> {F(r.sub)}, objs |-> {F(y) : y \in r.objs}]
            IN P(L, r) = Pass(Den(T, mr.subs \cup mr.objs), imports, mr)
\* binds spec/LayerLaws.tla (TLAPS proofs for arbitrary layer denotations) to LayerSem: the textual copy of the operators
\* there gives the same outcome as LayerSem!LOutcome on every layer map, rule and import relation of this model
LL == INSTANCE LayerLaws
SDen(L) == [n \in DOMAIN L |-> LSet(T, L, n)]
LayerLawsCopyAgrees == \A L \in Maps : \A r \in Rules(L) :
                           LL!OutcomeN(SDen(L), imports, LNorm(r)) = LOutcome(T, L, imports, r)
NonVacuous == \E L \in Maps : (\E r \in Rules(L) : P(L, r)) /\ (\E r \in Rules(L) : ~P(L, r))

EmitState == EMIT => PrintT("STATE " \o ToJson([imports |-> SetToSeq(imports), modules |-> SetToSeq(T)]))
=============================================================================
