SPECIFICATION Spec
CONSTANTS
  World = "W5"
  EMIT = TRUE
INVARIANT EmitState
CHECK_DEADLOCK FALSE
