SPECIFICATION Spec
CONSTANTS
  Which = "rule"
  MaxLen = 3
  EMIT = FALSE
INVARIANT RuleStateIsHistory
INVARIANT RuleClassTotal
INVARIANT ArchAlwaysWF
INVARIANT ArchIsHistory
INVARIANT LRuleOneSubject
PROPERTY RejectedUnchanged
CHECK_DEADLOCK FALSE
