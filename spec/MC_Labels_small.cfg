SPECIFICATION Spec
CONSTANTS
  EMIT = FALSE
  Big = FALSE
INVARIANT TypeOK
INVARIANT Total
INVARIANT Recompose
INVARIANT Unaliased
INVARIANT Nearest
INVARIANT SelfAlias
INVARIANT Unknown
PROPERTY Locality
CHECK_DEADLOCK FALSE
