------------------------------ MODULE LayerSem ------------------------------
(***************************************************************************)
(* Meaning of a layer rule (pytestarch.LayerRule) - C05.                    *)
(*   T   module tree, I imports                                             *)
(*   L   layer map: layer name -> set of LISTED modules (for a regex layer  *)
(*       the match set, an input computed with re.match)                    *)
(*   r   [verb, dir ("import" = access, "imported" = be accessed by), exc,  *)
(*        any, sub : layer name, objs : set of layer names]                 *)
(* One unit per layer: a layer is the union of its listed modules and all   *)
(* their descendants; imports inside one layer never count; layers the rule *)
(* does not mention are "something else", like modules in no layer.         *)
(***************************************************************************)
EXTENDS RuleSem

LSet(T, L, n)  == UNION {Desc(T, m) : m \in L[n]}
LNorm(r)       == IF r.any THEN [r EXCEPT !.objs = {r.sub}, !.exc = TRUE, !.any = FALSE] ELSE r
LObjAll(T, L, r) == UNION {LSet(T, L, y) : y \in r.objs}

\* imports from the subject layer into object layer y (direction-aware), never within one layer
LAccess(T, L, I, r, y) == {e \in I : /\ From(r, e) \in LSet(T, L, r.sub)
                                      /\ To(r, e) \in LSet(T, L, y)
                                      /\ To(r, e) \notin LSet(T, L, r.sub)}
\* imports between the subject layer and something else
LOther(T, L, I, r) == {e \in I : /\ From(r, e) \in LSet(T, L, r.sub)
                                  /\ To(r, e) \notin LSet(T, L, r.sub)
                                  /\ To(r, e) \notin LObjAll(T, L, r)}

LRealisedN(T, L, I, r) ==
    (IF ForbidEdge(r)  THEN UNION {LAccess(T, L, I, r, y) : y \in r.objs} ELSE {})
    \cup (IF ForbidOther(r) THEN LOther(T, L, I, r) ELSE {})
LMissingEdgeN(T, L, I, r) ==
    IF ReqEdge(r) /\ (\E y \in r.objs : LAccess(T, L, I, r, y) = {})
    THEN {<<r.sub, {y \in r.objs : LAccess(T, L, I, r, y) = {}}>>} ELSE {}
LMissingOtherN(T, L, I, r) ==
    IF ReqOther(r) /\ LOther(T, L, I, r) = {} THEN {<<r.sub, r.objs>>} ELSE {}

LOutcome(T, L, I, r0) ==
    LET r == LNorm(r0) IN
    [pass     |-> LRealisedN(T, L, I, r) = {} /\ LMissingEdgeN(T, L, I, r) = {} /\ LMissingOtherN(T, L, I, r) = {},
     realised |-> LRealisedN(T, L, I, r),
     medge    |-> LMissingEdgeN(T, L, I, r),
     mother   |-> LMissingOtherN(T, L, I, r)]
LPass(T, L, I, r) == LOutcome(T, L, I, r).pass

\* layer of a module ("" = no layer); well-defined when layers list pairwise unrelated modules
LayerOf(T, L, m) == IF \E n \in DOMAIN L : m \in LSet(T, L, n)
                    THEN CHOOSE n \in DOMAIN L : m \in LSet(T, L, n) ELSE ""

\* domain of C05: all listed modules exist and modules of DIFFERENT layers are unrelated.  Inside one layer a module may
\* be listed next to one of its own descendants: redundant, the layer is the union of the sub trees either way.
Listed(L) == UNION {L[n] : n \in DOMAIN L}
LayersWF(T, L) == /\ Listed(L) \subseteq T
                  /\ \A n \in DOMAIN L : L[n] # {}
                  /\ \A n1, n2 \in DOMAIN L : n1 # n2 => \A m1 \in L[n1], m2 \in L[n2] : ~Related(m1, m2)
LRuleWF(L, r) == r.sub \in DOMAIN L /\ r.objs \subseteq DOMAIN L /\ (r.any \/ (r.objs # {} /\ r.sub \notin r.objs))

\* the architecture with every layer the rule does not mention removed: must give the same outcome
Mentioned(r)     == {r.sub} \cup r.objs
Restricted(L, r) == [n \in Mentioned(r) \cap DOMAIN L |-> L[n]]
=============================================================================
