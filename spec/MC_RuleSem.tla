----------------------------- MODULE MC_RuleSem -----------------------------
(***************************************************************************)
(* Bounded model of "an architecture whose import relation grows" with the  *)
(* rule semantics of RuleSem evaluated in every reachable state.            *)
(*                                                                         *)
(*  (M)  laws of C12 / C11 and the documentation-table equivalence of C01   *)
(*       as invariants over the WHOLE bounded rule space (related modules   *)
(*       included), monotonicity as an action property;                     *)
(*  (R)  with EMIT = TRUE every distinct state is printed as one JSON line  *)
(*       which the harness replays into the real code.                      *)
(***************************************************************************)
EXTENDS RuleSem, TLC, Json

CONSTANTS World,      \* "W4" | "W5" | "W6"
          EMIT        \* BOOLEAN

N(s) == s   \* readability: N(<<"r","a">>)

T == CASE World = "W4" -> {<<"r">>, <<"r","a">>, <<"r","a","x">>, <<"r","b">>}
       [] World = "W5" -> {<<"r">>, <<"r","a">>, <<"r","a","x">>, <<"r","b">>, <<"r","c">>}
       [] World = "W6" -> {<<"r">>, <<"r","a">>, <<"r","a","x">>, <<"r","a","y">>,
                           <<"r","b">>, <<"r","b","z">>}

Leaves == {m \in T : StrictDesc(T, m) = {}}

\* candidate imports: a leaf file imports any other module that is not below it
\* (child -> ancestor included: 'sub modules of P' importing P itself)
Cand == {e \in Leaves \X T : e[1] # e[2]}

VARIABLE imports
vars == <<imports>>

Init == imports = {}
AddImport(e) == e \notin imports /\ imports' = imports \cup {e}
Next == \E e \in Cand : AddImport(e)
Spec == Init /\ [][Next]_vars

Filters == {[kind |-> k, name |-> m] : k \in {"named", "sub"}, m \in T}

Shape == [verb : Verbs, dir : Dirs, exc : BOOLEAN]
Mk(sh, S, O) == [verb |-> sh.verb, dir |-> sh.dir, exc |-> sh.exc, any |-> FALSE, subs |-> S, objs |-> O]
MkAny(d, S)  == [verb |-> "should_not", dir |-> d, exc |-> FALSE, any |-> TRUE, subs |-> S, objs |-> {}]

\* single subject, single object: 6 x 2 shapes x |Filters|^2, plus the two aliases
RS1  == {Mk(sh, {s}, {o}) : sh \in Shape, s \in Filters, o \in Filters}
RSA  == {MkAny(d, {s}) : d \in Dirs, s \in Filters}
\* batches: two subjects or two objects, named filters only (keeps the space finite and small)
Named == {f \in Filters : f.kind = "named"}
Pairs(F) == {P \in SUBSET F : Cardinality(P) = 2}
RSB  == {Mk(sh, S, {o}) : sh \in Shape, S \in Pairs(Named), o \in Named}
          \cup {Mk(sh, {s}, O) : sh \in Shape, s \in Named, O \in Pairs(Named)}

D == Den(T, Filters)
P(r) == Pass(D, imports, r)

TypeOK == imports \subseteq Cand

\* C01: the flag formulation used everywhere in /verif equals the table of LANGUAGE_DEFINTION.md
TableOK == \A r \in RS1 \cup RSA \cup RSB : TablePass(D, imports, r) = P(r)

\* C12 laws, whole space, related modules included
Duality  == \A r \in RS1 \cup RSB : (r.verb \in {"should", "should_not"} /\ ~r.exc) => P(r) = P(Dual(r))
Negation == \A r \in RS1 : r.verb = "should" => (P(r) = ~P(WithVerb(r, "should_not", r.exc)))
Decomp   == \A r \in RS1 \cup RSB : r.verb = "should_only" =>
               P(r) = (P(WithVerb(r, "should", r.exc)) /\ P(WithVerb(r, "should_not", ~r.exc)))
AnyAlias == \A r \in RSA : P(r) = P([r EXCEPT !.any = FALSE, !.exc = TRUE, !.objs = r.subs])

\* C11: batch = conjunction
BatchSubjects == \A r \in RSB : P(r) = \A s \in r.subs : P([r EXCEPT !.subs = {s}])
BatchObjects  == \A r \in RSB : (~r.exc /\ r.verb \in {"should", "should_not"}) =>
                     P(r) = \A o \in r.objs : P([r EXCEPT !.objs = {o}])

\* C12 monotonicity over every AddImport transition
Monotone == [][\A r \in RS1 \cup RSA \cup RSB :
                   /\ (r.verb = "should" /\ P(r)) => Pass(D, imports', r)
                   /\ (r.verb = "should_not" /\ ~P(r)) => ~Pass(D, imports', r)]_vars

\* C09-style sanity and a vacuity guard: some rule passes and some rule fails in every state
NonVacuous == (\E r \in RS1 : P(r)) /\ (\E r \in RS1 : ~P(r))

\* outcome well-formedness: every reported import is an import, every missing line names a subject
OutcomeWF == \A r \in RS1 \cup RSA \cup RSB :
                /\ Realised(D, imports, r) \subseteq imports
                /\ \A m \in MissingEdge(D, imports, r) \cup MissingOther(D, imports, r) : m[1] \in Norm(r).subs
                /\ \A e \in Realised(D, imports, r) : \E s \in Norm(r).subs : From(r, e) \in D[s]

\* C14: the semantics commute with injective component renamings - here the adversarial chain renaming the
\* harness uses (every name a string prefix of the next) and a permutation of the model's own components
Comps == UNION {SeqToSet(m) : m \in T}
RhoChain == [c \in Comps |-> CASE c = "r" -> "a" [] c = "a" -> "ab" [] c = "x" -> "ab_" [] c = "b" -> "ab_c"
                                 [] c = "c" -> "ab_c1" [] c = "y" -> "ab_c1a" [] c = "z" -> "ab_c1ab"]
RhoPerm  == [c \in Comps |-> CASE c = "r" -> "r" [] c = "a" -> "b" [] c = "b" -> "c" [] c = "c" -> "a"
                                 [] c = "x" -> "z" [] c = "y" -> "x" [] c = "z" -> "y"]
DRen(rho) == Den(RenNames(rho, T), RenFilters(rho, Filters))
DChain == DRen(RhoChain)
DPerm  == DRen(RhoPerm)
\* constant-level tables (TLC evaluates them once): the renamed rule of every rule of the space
RuleChain == [r \in RS1 \cup RSA |-> RenRule(RhoChain, r)]
RulePerm  == [r \in RS1 \cup RSA |-> RenRule(RhoPerm, r)]
RenamingInvariant ==
    /\ Injective(RhoChain) /\ Injective(RhoPerm)
    /\ LET IC == RenEdges(RhoChain, imports)
           IP == RenEdges(RhoPerm, imports) IN
       \A r \in RS1 \cup RSA :
          LET o == Outcome(D, imports, r) IN
          /\ Outcome(DChain, IC, RuleChain[r]) = RenOutcome(RhoChain, o)
          /\ Outcome(DPerm, IP, RulePerm[r]) = RenOutcome(RhoPerm, o)
\* ... and a NON-injective renaming does change outcomes somewhere (vacuity guard for the invariant above):
\* collapsing the siblings a and b makes 'a should not import b' speak about a itself
RhoCollapse == [c \in Comps |-> IF c = "b" THEN "a" ELSE c]

\* Laws.tla holds a textual copy of the semantic operators (tlapm cannot load the community modules this module
\* extends) and TLAPS proofs of the algebra for arbitrary D, I, r.  The copy is bound to the original here:
L == INSTANCE Laws
LawsCopyAgrees == \A r \in RS1 \cup RSB : /\ L!Pass(D, imports, r) = Pass(D, imports, r)
                                          /\ L!Dual(r) = Dual(r)
                                          /\ L!WithVerb(r, "should_not", ~r.exc) = WithVerb(r, "should_not", ~r.exc)
                                          /\ L!IsRule(r)

\* (R) emission: one JSON line per distinct state
SetToSeqS(S) == SetToSeq(S)
EmitState == EMIT => PrintT("STATE " \o ToJson([imports |-> SetToSeqS(imports), modules |-> SetToSeqS(T)]))
=============================================================================
