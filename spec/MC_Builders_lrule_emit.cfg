SPECIFICATION Spec
CONSTANTS
  Which = "lrule"
  MaxLen = 4
  EMIT = TRUE
INVARIANT EmitHist
CHECK_DEADLOCK FALSE
