---------------------------- MODULE MC_Positions ----------------------------
(***************************************************************************)
(* C02: where an import statement stands.  A position is a stack of         *)
(* statement-list slots (AST class . field) of the running interpreter's    *)
(* grammar - the constant Slots is generated from ast.<Class>.__doc__ at    *)
(* run time.  Behaviours are Nest(slot)* followed by Place(form): TLC       *)
(* enumerates every position up to MaxDepth x every import form, checks     *)
(* that what the statement names is independent of the stack, and (EMIT)    *)
(* prints each <<position, form>> for replay through real source files.     *)
(***************************************************************************)
EXTENDS Scan, TLC, Json

CONSTANTS Slots, MaxDepth, EMIT

Forms == {"plain", "aliased", "multi", "from_name", "from_submodule", "star", "rel1", "rel2", "rel_pkg"}

VARIABLES stack, placed
vars == <<stack, placed>>
Init == stack = <<>> /\ placed = "none"
Nest(s)  == placed = "none" /\ Len(stack) < MaxDepth /\ stack' = Append(stack, s) /\ UNCHANGED placed
Place(f) == placed = "none" /\ placed' = f /\ UNCHANGED stack
          /\ (f = "star" => stack = <<>>)              \* 'import *' is only legal at module level
Next == (\E s \in Slots : Nest(s)) \/ (\E f \in Forms : Place(f))
Spec == Init /\ [][Next]_vars

\* a fixed small project: importer r.p.q.src, targets r.p.t (sibling), r.u.t (other package), package r.p.q
F == <<"r","p","q","src">>
Proj == [dirs  |-> {<<"r">>, <<"r","p">>, <<"r","p","q">>, <<"r","u">>},
         files |-> {[name |-> n, py |-> TRUE] : n \in {F, <<"r","p","t">>, <<"r","u","t">>, <<"r","p","q","t">>}},
         stmts |-> {}]
C == [mpath |-> <<"r">>, excluded |-> {}, limit |-> 0, ext |-> FALSE, extexcl |-> {}]
Stmt(f, pos) ==
    CASE f \in {"plain", "aliased", "multi"} -> [file |-> F, form |-> "import", level |-> 0, module |-> <<"r","u","t">>, names |-> <<>>, pos |-> pos]
      [] f = "from_name"      -> [file |-> F, form |-> "from", level |-> 0, module |-> <<"r","u">>, names |-> <<"t">>, pos |-> pos]
      [] f = "from_submodule" -> [file |-> F, form |-> "from", level |-> 0, module |-> <<"r","u","t">>, names |-> <<"helper">>, pos |-> pos]
      [] f = "star"           -> [file |-> F, form |-> "from", level |-> 0, module |-> <<"r","u","t">>, names |-> <<"*">>, pos |-> pos]
      [] f = "rel1"           -> [file |-> F, form |-> "from", level |-> 1, module |-> <<>>, names |-> <<"t">>, pos |-> pos]
      [] f = "rel2"           -> [file |-> F, form |-> "from", level |-> 2, module |-> <<>>, names |-> <<"t">>, pos |-> pos]
      [] f = "rel_pkg"        -> [file |-> F, form |-> "from", level |-> 3, module |-> <<"u">>, names |-> <<"t">>, pos |-> pos]

Expected(f) == CASE f \in {"plain", "aliased", "multi", "from_name", "from_submodule", "star", "rel_pkg"} -> <<"r","u","t">>
                 [] f = "rel1" -> <<"r","p","q","t">>
                 [] f = "rel2" -> <<"r","p","t">>

\* what a statement names does not depend on where it stands, and is the module its form says
PositionIndependent ==
    placed # "none" =>
        /\ Named(Proj, C, Stmt(placed, stack)) = Named(Proj, C, Stmt(placed, <<>>))
        /\ Named(Proj, C, Stmt(placed, stack)).must = {Expected(placed)}
        /\ LET P2 == [Proj EXCEPT !.stmts = {Stmt(placed, stack)}] IN MustImports(P2, C) = {<<F, Expected(placed)>>}
SlotsUsed == TRUE
EmitPosition == (EMIT /\ placed # "none") => PrintT("POS " \o ToJson([pos |-> stack, form |-> placed]))
=============================================================================
