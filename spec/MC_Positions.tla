---------------------------- MODULE MC_Positions ----------------------------
(***************************************************************************)
(* C02: where an import statement stands.  A position is a stack of         *)
(* statement-list slots (AST class . field) of the running interpreter's    *)
(* grammar - the constant Slots is generated from ast.<Class>.__doc__ at    *)
(* run time.  Behaviours are Nest(slot)* followed by Place(form): TLC       *)
(* enumerates every position up to MaxDepth x every import form, checks     *)
(* that what the statement names is independent of the stack, and (EMIT)    *)
(* prints each <<position, form, layout>> for replay through real source    *)
(* files.  The layout (Scan.tla: lay) is the third dimension: the same       *)
(* statement on its own line, behind a semicolon, on the header line of its  *)
(* compound statement, in parentheses over several lines, or continued with  *)
(* a backslash.                                                              *)
(***************************************************************************)
EXTENDS Scan, TLC, Json

CONSTANTS Slots, MaxDepth, EMIT

Forms == {"plain", "aliased", "multi", "from_name", "from_submodule", "star", "rel1", "rel2", "rel_pkg"}

Layouts == {"line", "semicolon", "inline", "paren", "backslash"}
\* parentheses exist only around the name list of a from-import; 'inline' needs a compound statement to sit in
LayoutOK(f, y, st) == /\ (y = "paren" => f \in {"from_name", "from_submodule", "rel1", "rel2", "rel_pkg"})
                      /\ (y = "inline" => st # <<>>)

VARIABLES stack, placed, layout
vars == <<stack, placed, layout>>
Init == stack = <<>> /\ placed = "none" /\ layout = "line"
Nest(s)  == placed = "none" /\ Len(stack) < MaxDepth /\ stack' = Append(stack, s) /\ UNCHANGED <<placed, layout>>
Place(f, y) == placed = "none" /\ placed' = f /\ layout' = y /\ UNCHANGED stack
          /\ LayoutOK(f, y, stack)
          /\ (f = "star" => stack = <<>>)              \* 'import *' is only legal at module level
Next == (\E s \in Slots : Nest(s)) \/ (\E f \in Forms, y \in Layouts : Place(f, y))
Spec == Init /\ [][Next]_vars

\* a fixed small project: importer r.p.q.src, targets r.p.t (sibling), r.u.t (other package), package r.p.q
F == <<"r","p","q","src">>
Proj == [dirs  |-> {<<"r">>, <<"r","p">>, <<"r","p","q">>, <<"r","u">>},
         files |-> {[name |-> n, py |-> TRUE] : n \in {F, <<"r","p","t">>, <<"r","u","t">>, <<"r","p","q","t">>}},
         stmts |-> {}]
C == [mpath |-> <<"r">>, excluded |-> {}, limit |-> 0, ext |-> FALSE, extexcl |-> {}]
Stmt(f, pos, y) ==
    CASE f \in {"plain", "aliased", "multi"} -> [file |-> F, form |-> "import", level |-> 0, module |-> <<"r","u","t">>, names |-> <<>>, pos |-> pos, lay |-> y]
      [] f = "from_name"      -> [file |-> F, form |-> "from", level |-> 0, module |-> <<"r","u">>, names |-> <<"t">>, pos |-> pos, lay |-> y]
      [] f = "from_submodule" -> [file |-> F, form |-> "from", level |-> 0, module |-> <<"r","u","t">>, names |-> <<"helper">>, pos |-> pos, lay |-> y]
      [] f = "star"           -> [file |-> F, form |-> "from", level |-> 0, module |-> <<"r","u","t">>, names |-> <<"*">>, pos |-> pos, lay |-> y]
      [] f = "rel1"           -> [file |-> F, form |-> "from", level |-> 1, module |-> <<>>, names |-> <<"t">>, pos |-> pos, lay |-> y]
      [] f = "rel2"           -> [file |-> F, form |-> "from", level |-> 2, module |-> <<>>, names |-> <<"t">>, pos |-> pos, lay |-> y]
      [] f = "rel_pkg"        -> [file |-> F, form |-> "from", level |-> 3, module |-> <<"u">>, names |-> <<"t">>, pos |-> pos, lay |-> y]

Expected(f) == CASE f \in {"plain", "aliased", "multi", "from_name", "from_submodule", "star", "rel_pkg"} -> <<"r","u","t">>
                 [] f = "rel1" -> <<"r","p","q","t">>
                 [] f = "rel2" -> <<"r","p","t">>

\* what a statement names does not depend on where it stands, and is the module its form says
PositionIndependent ==
    placed # "none" =>
        /\ Named(Proj, C, Stmt(placed, stack, layout)) = Named(Proj, C, Stmt(placed, <<>>, "line"))
        /\ Named(Proj, C, Stmt(placed, stack, layout)).must = {Expected(placed)}
        /\ LET P2 == [Proj EXCEPT !.stmts = {Stmt(placed, stack, layout)}] IN MustImports(P2, C) = {<<F, Expected(placed)>>}
SlotsUsed == TRUE
EmitPosition == (EMIT /\ placed # "none") => PrintT("POS " \o ToJson([pos |-> stack, form |-> placed, lay |-> layout]))
=============================================================================
