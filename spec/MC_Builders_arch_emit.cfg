SPECIFICATION Spec
CONSTANTS
  Which = "arch"
  MaxLen = 4
  EMIT = TRUE
INVARIANT EmitHist
CHECK_DEADLOCK FALSE
