SPECIFICATION Spec
CONSTANTS
  EMIT = FALSE
  Big = TRUE
INVARIANT TypeOK
INVARIANT Total
INVARIANT Recompose
INVARIANT Unaliased
INVARIANT Nearest
INVARIANT SelfAlias
INVARIANT Unknown
PROPERTY Locality
CHECK_DEADLOCK FALSE
