SPECIFICATION Spec
CONSTANTS
  EMIT = TRUE
  Big = FALSE
INVARIANT EmitState
CHECK_DEADLOCK FALSE
