SPECIFICATION Spec
CONSTANTS
  EMIT = FALSE
  Small = TRUE
INVARIANT AllWF
INVARIANT UnmentionedIsNoLayer
INVARIANT LayerLawsCopyAgrees
INVARIANT LDecomp
INVARIANT LNegation
INVARIANT SingletonLayersAreModuleRules
INVARIANT NonVacuous
PROPERTY SameLayerNeverCounts
CHECK_DEADLOCK FALSE
