------------------------------ MODULE Builders ------------------------------
(***************************************************************************)
(* The fluent builders as automata: one step function per builder, one     *)
(* call = one step.  A step yields the next abstract state and whether the *)
(* call must be accepted ("ok"), must be rejected with a configuration or  *)
(* lookup error ("error"), or is left open by the properties ("either").   *)
(*                                                                         *)
(*   RuleStep / RuleAssert        pytestarch.Rule                 (C13, C15)*)
(*   ArchStep / ArchShow          pytestarch.LayeredArchitecture  (C16)     *)
(*   LRuleStep / LRuleMustError   pytestarch.LayerRule            (C13, C16)*)
(*   DiagStep / DiagMustError     pytestarch.DiagramRule          (C13)     *)
(*                                                                         *)
(* Calls are records [m |-> method name, ...arguments].  A rejected call   *)
(* leaves the state unchanged: Apply.                                      *)
(***************************************************************************)
EXTENDS RuleSem

\* next state given what the specification prescribes and (for "either") what was observed
Apply(s, step, observed) == IF step.out = "ok" \/ (step.out = "either" /\ observed = "ok") THEN step.state ELSE s
OutOK(step, observed)    == step.out = "either" \/ step.out = observed

(* ------------------------------------------------------------------ Rule *)
\* excs / anys are SETS of readings: where "flags are sticky" and "the last call wins" differ
\* (import_modules_except_modules_that() followed by import_modules_that()), both readings are kept and
\* any verdict one of them yields is accepted; C13 only fixes what incomplete/contradictory histories do.
RInit == [next |-> "none", subs |-> {}, objs |-> {}, subsNoMatch |-> FALSE, objsNoMatch |-> FALSE,
          verbs |-> {}, dir |-> "unset", excs |-> {FALSE}, anys |-> {FALSE}]

ListMethods == {"are_named", "are_sub_modules_of", "have_name_matching", "have_name_containing"}
VerbMethods == {"should", "should_only", "should_not"}
ImportMethods == {"import_modules_that", "be_imported_by_modules_that",
                  "import_modules_except_modules_that", "be_imported_by_modules_except_modules_that",
                  "import_anything", "be_imported_by_anything"}
RuleMethods == {"modules_that"} \cup ListMethods \cup VerbMethods \cup ImportMethods

DirOf(m) == IF m \in {"import_modules_that", "import_modules_except_modules_that", "import_anything"}
            THEN "import" ELSE "imported"
Sticky(S) == IF TRUE \in S THEN {TRUE, FALSE} ELSE {FALSE}

\* c.filters : set of abstract filters the list argument denotes (regex / partial: the matched modules as named
\* filters);  c.nomatch : a regex / partial name in the argument matched nothing
RuleStep(s, c) ==
    CASE c.m = "modules_that" -> [state |-> [s EXCEPT !.next = "subj"], out |-> "ok"]
      [] c.m \in ListMethods ->
            IF s.next = "none" THEN [state |-> s, out |-> "error"]        \* no side selected yet
            ELSE IF s.next = "subj"
                 THEN [state |-> [s EXCEPT !.subs = c.filters, !.subsNoMatch = c.nomatch], out |-> "ok"]
                 ELSE [state |-> [s EXCEPT !.objs = c.filters, !.objsNoMatch = c.nomatch], out |-> "ok"]
      [] c.m \in VerbMethods -> [state |-> [s EXCEPT !.verbs = @ \cup {c.m}], out |-> "ok"]
      [] c.m \in {"import_modules_that", "be_imported_by_modules_that"} ->
            [state |-> [s EXCEPT !.dir = DirOf(c.m), !.next = "obj", !.excs = Sticky(@), !.anys = Sticky(@)], out |-> "ok"]
      [] c.m \in {"import_modules_except_modules_that", "be_imported_by_modules_except_modules_that"} ->
            [state |-> [s EXCEPT !.dir = DirOf(c.m), !.next = "obj", !.excs = {TRUE}, !.anys = Sticky(@)], out |-> "ok"]
      [] c.m \in {"import_anything", "be_imported_by_anything"} ->
            [state |-> [s EXCEPT !.dir = DirOf(c.m), !.next = "obj", !.excs = Sticky(@), !.anys = {TRUE}], out |-> "ok"]

\* the concrete configurations a builder state may be read as
Readings(s) == {[verb |-> v, dir |-> s.dir, exc |-> x, any |-> a, subs |-> s.subs, objs |-> s.objs] :
                   v \in s.verbs, x \in s.excs, a \in s.anys}

Incomplete(s)    == s.verbs = {} \/ s.dir = "unset" \/ s.subs = {}
Contradictory(s) == "should_not" \in s.verbs /\ s.verbs # {"should_not"}
BadReading(r)    == (~r.any /\ r.objs = {}) \/ (r.any /\ r.verb # "should_not")
NoMatch(s)       == s.subsNoMatch \/ (s.objsNoMatch /\ FALSE \in s.anys)

\* C13: the specification MUST raise a configuration / lookup error (no verdict)
RuleMustError(s, T) ==
    \/ Incomplete(s) \/ Contradictory(s)
    \/ \A r \in Readings(s) : BadReading(r)
    \/ \A r \in Readings(s) : ~BadReading(r) => (~NamesKnown(T, Norm(r)) \/ NoMatch(s))

\* outcomes assert_applies may have: "error", or a verdict record of RuleSem
RuleMayError(s, T) == RuleMustError(s, T) \/ \E r \in Readings(s) : BadReading(r) \/ ~NamesKnown(T, Norm(r))
                        \/ s.subsNoMatch \/ s.objsNoMatch
RuleVerdicts(s, T, I) ==     \* set of allowed pass/fail outcomes; "any" when some good reading is not strict
    LET good == {r \in Readings(s) : ~BadReading(r) /\ NamesKnown(T, Norm(r))} IN
    IF \E r \in good : ~Strict(r) THEN {TRUE, FALSE}
    ELSE UNION {{o.pass : o \in Allowed(Den(T, r.subs \cup r.objs), I, r)} : r \in good}

(* ------------------------------------------------------ LayeredArchitecture *)
\* layers : sequence of [name, kind ("names" | "regex"), items (sequence of module names | <<regex id>>)]
\* pending : name of the layer opened by layer(n) that has not received its modules yet ("" = none)
AInit == [layers |-> <<>>, pending |-> ""]
ArchMethods == {"with_layer", "layer", "containing_modules", "have_modules_with_names_matching"}

LayerNames(a) == {a.layers[i].name : i \in DOMAIN a.layers} \cup (IF a.pending = "" THEN {} ELSE {a.pending})
\* module NAMES supplied so far (containing_modules).  The text of a regex layer is not a module name: C16 speaks of
\* names "passed as a string or inside a list", so whether a name that coincides with the text of an earlier regex
\* layer is rejected is left open (the library rejects it, but accepts the two calls in the other order) - RegexTexts
Assigned(a)   == UNION {SeqToSet(a.layers[i].items) : i \in {i \in DOMAIN a.layers : a.layers[i].kind = "names"}}
RegexTexts(a) == UNION {SeqToSet(a.layers[i].items) : i \in {i \in DOMAIN a.layers : a.layers[i].kind = "regex"}}

\* c.names : the module names passed, in order, whatever Python type carried them (str or list)
ArchStep(a, c) ==
    CASE c.m = "with_layer" -> [state |-> a, out |-> "ok"]
      [] c.m = "layer" ->
            IF a.pending # "" \/ c.name \in LayerNames(a) THEN [state |-> a, out |-> "error"]
            ELSE [state |-> [a EXCEPT !.pending = c.name], out |-> "ok"]
      [] c.m = "containing_modules" ->
            IF a.pending = "" \/ SeqToSet(c.names) \cap Assigned(a) # {} THEN [state |-> a, out |-> "error"]
            \* an empty list supplies nothing: the layer keeps waiting for its modules (whether the call itself is
            \* accepted or rejected is left open)
            ELSE IF c.names = <<>> THEN [state |-> a, out |-> "either"]
            ELSE [state |-> [layers |-> Append(a.layers, [name |-> a.pending, kind |-> "names", items |-> c.names]),
                             pending |-> ""],
                  out |-> IF SeqToSet(c.names) \cap RegexTexts(a) # {} THEN "either" ELSE "ok"]
      [] c.m = "have_modules_with_names_matching" ->
            IF a.pending = "" THEN [state |-> a, out |-> "error"]
            ELSE [state |-> [layers |-> Append(a.layers, [name |-> a.pending, kind |-> "regex", items |-> <<c.regex>>]),
                             pending |-> ""], out |-> "ok"]

\* what str(architecture) and architecture[layer] must show: every accepted layer, in order, with exactly the
\* modules supplied; a layer that is still waiting for its modules is listed empty
ArchShow(a) == [i \in 1..(Len(a.layers) + (IF a.pending = "" THEN 0 ELSE 1)) |->
                   IF i <= Len(a.layers) THEN [name |-> a.layers[i].name, items |-> a.layers[i].items]
                   ELSE [name |-> a.pending, items |-> <<>>]]

\* C16 invariants of the automaton itself (checked by TLC on MC_Builders)
ArchWF(a) == /\ \A i, j \in DOMAIN a.layers : i # j => a.layers[i].name # a.layers[j].name
             /\ \A i, j \in DOMAIN a.layers :
                   (i # j /\ a.layers[i].kind = "names" /\ a.layers[j].kind = "names") =>
                        SeqToSet(a.layers[i].items) \cap SeqToSet(a.layers[j].items) = {}
             /\ a.pending \notin {a.layers[i].name : i \in DOMAIN a.layers}

(* ------------------------------------------------------------- LayerRule *)
\* arch : "none" | an architecture state (as defined when based_on was called; the object is shared, so the
\*        harness logs the layers visible at each call)
\* has  : layers_that() was called;  rule : a Rule automaton state whose sides hold LAYER NAMES as filters [kind |-> "layer", name |-> n]
LInit == [arch |-> FALSE, has |-> FALSE, rule |-> RInit, nsub |-> 0]
LRuleVerbs == VerbMethods
LRuleAccess == {"access_layers_that", "be_accessed_by_layers_that", "access_layers_except_layers_that",
                "be_accessed_by_layers_except_layers_that", "access_any_layer", "be_accessed_by_any_layer"}
AccessToImport(m) ==
    CASE m = "access_layers_that" -> "import_modules_that"
      [] m = "be_accessed_by_layers_that" -> "be_imported_by_modules_that"
      [] m = "access_layers_except_layers_that" -> "import_modules_except_modules_that"
      [] m = "be_accessed_by_layers_except_layers_that" -> "be_imported_by_modules_except_modules_that"
      [] m = "access_any_layer" -> "import_anything"
      [] m = "be_accessed_by_any_layer" -> "be_imported_by_anything"

\* c.layers : sequence of layer names; c.list : the argument was a Python list; c.defined : set of layer names
\*            defined in the architecture at the time of the call
LRuleStep(s, c) ==
    CASE c.m = "based_on" ->
            IF s.arch THEN [state |-> s, out |-> "error"] ELSE [state |-> [s EXCEPT !.arch = TRUE], out |-> "ok"]
      [] c.m = "layers_that" ->
            IF ~s.arch THEN [state |-> s, out |-> "error"]
            ELSE [state |-> [s EXCEPT !.has = TRUE, !.rule = [RInit EXCEPT !.next = "subj"], !.nsub = 0], out |-> "ok"]
      [] c.m = "are_named" ->
            IF ~s.has THEN [state |-> s, out |-> "error"]
            ELSE IF ~(SeqToSet(c.layers) \subseteq c.defined) THEN [state |-> s, out |-> "error"]   \* lookup error
            ELSE IF s.rule.next = "subj"
                 THEN \* exactly one subject layer, exactly once
                      IF s.nsub > 0 \/ Len(c.layers) # 1 THEN [state |-> s, out |-> "error"]
                      ELSE [state |-> [s EXCEPT !.rule.subs = {[kind |-> "layer", name |-> c.layers[1]]}, !.nsub = 1],
                            \* C16 leaves open whether a one-element LIST counts as a batch (the code rejects it)
                            out |-> IF c.list THEN "either" ELSE "ok"]
                 ELSE IF s.rule.next = "obj"
                 THEN [state |-> [s EXCEPT !.rule.objs = @ \cup {[kind |-> "layer", name |-> n] : n \in SeqToSet(c.layers)}],
                       \* an object LIST while no subject exists may be rejected here (the code does) or be
                       \* accepted and reported as incomplete at assert_applies: C16 does not say which
                       out |-> IF s.nsub = 0 /\ c.list THEN "either" ELSE "ok"]
                 ELSE [state |-> s, out |-> "error"]
      [] c.m \in LRuleVerbs ->
            IF ~s.has THEN [state |-> s, out |-> "error"]
            ELSE [state |-> [s EXCEPT !.rule = RuleStep(@, [m |-> c.m]).state], out |-> "ok"]
      [] c.m \in LRuleAccess ->
            IF ~s.has THEN [state |-> s, out |-> "error"]
            ELSE [state |-> [s EXCEPT !.rule = RuleStep(@, [m |-> AccessToImport(c.m)]).state], out |-> "ok"]

LRuleMustError(s) ==
    \/ ~s.has
    \/ Incomplete(s.rule) \/ Contradictory(s.rule) \/ \A r \in Readings(s.rule) : BadReading(r)
LRuleMayError(s) == LRuleMustError(s) \/ \E r \in Readings(s.rule) : BadReading(r)

(* ----------------------------------------------------------- DiagramRule *)
DInit == [file |-> "none"]      \* "none" | "good" | a file that lacks a tag: "notags" | "startonly" | "endonly" | "reversed"
BadlyTagged == {"notags", "startonly", "endonly", "reversed"}
DiagMethods == {"from_file", "with_base_module", "base_module_included_in_module_names"}
DiagStep(d, c) == IF c.m = "from_file" THEN [state |-> [d EXCEPT !.file = c.file], out |-> "ok"]
                  ELSE [state |-> d, out |-> "ok"]
DiagMustError(d) == d.file \in {"none"} \cup BadlyTagged
=============================================================================
