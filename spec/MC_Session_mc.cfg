SPECIFICATION Spec
CONSTANTS
  T <- MT
  Cand <- MCand
  RuleCfgs <- MRuleCfgs
  LayerCfgs <- MLayerCfgs
  DiagCfgs <- MDiagCfgs
  Layers <- MLayers
  AliasDoms <- MAliasDoms
  QueryCfgs <- MQueryCfgs
  ObjIds = {"o1", "o2"}
  MaxArchs = 2
  MaxHist = 4
  EMIT = FALSE
  EmitLen = 0
VIEW View
INVARIANT Functional
INVARIANT Reapply
INVARIANT RulesReportQueries
INVARIANT VizTotal
PROPERTY Pure
PROPERTY ObjectStable
CHECK_DEADLOCK FALSE
