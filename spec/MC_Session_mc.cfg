SPECIFICATION Spec
CONSTANTS
  T <- MT
  Cand <- MCand
  RuleCfgs <- MRuleCfgs
  LayerCfgs <- MLayerCfgs
  DiagCfgs <- MDiagCfgs
  Layers <- MLayers
  ObjIds = {"o1", "o2"}
  MaxArchs = 2
  MaxHist = 4
  EMIT = FALSE
  EmitLen = 0
INVARIANT Functional
INVARIANT Reapply
PROPERTY Pure
PROPERTY ObjectStable
CHECK_DEADLOCK FALSE
