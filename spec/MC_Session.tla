----------------------------- MODULE MC_Session -----------------------------
(***************************************************************************)
(* Bounded instance of Session: W4-like tree with three packages, small     *)
(* catalogues of module rules / layer rules / diagrams, two object ids.     *)
(* Exhaustive for short histories; tlc -simulate prints long histories      *)
(* (interleavings of New / Apply / Grow) that the harness replays on real    *)
(* objects sharing real architectures.                                      *)
(***************************************************************************)
EXTENDS Session, Json

CONSTANTS EMIT, EmitLen

RA == <<"r","a">>  RB == <<"r","b">>  RC == <<"r","c">>
MT == {<<"r">>, RA, <<"r","a","x">>, RB, RC}
MLeaves == {<<"r","a","x">>, RB, RC}
MCand == {e \in MLeaves \X (MT \ {<<"r">>}) : e[1] # e[2] /\ ~Anc(e[2], e[1])}

NFn(m) == [kind |-> "named", name |-> m]
SFn(m) == [kind |-> "sub", name |-> m]
MShape == [verb : Verbs, dir : Dirs, exc : BOOLEAN]
MRuleCfgs == {[verb |-> sh.verb, dir |-> sh.dir, exc |-> sh.exc, any |-> FALSE, subs |-> {NFn(p[1])}, objs |-> {NFn(p[2])}] :
                 sh \in MShape, p \in {<<RA, RB>>, <<RB, RC>>, <<RC, RA>>}}
             \cup {[verb |-> "should_not", dir |-> d, exc |-> FALSE, any |-> TRUE, subs |-> {f}, objs |-> {}] :
                 d \in Dirs, f \in {NFn(RA), SFn(RA), NFn(RB)}}
             \cup {[verb |-> sh.verb, dir |-> sh.dir, exc |-> sh.exc, any |-> FALSE, subs |-> {NFn(RA), NFn(RB)}, objs |-> {NFn(RC)}] : sh \in MShape}
MLayers == ("X" :> {RA} @@ "Y" :> {RB} @@ "Z" :> {RC})
MLayerCfgs == {[verb |-> sh.verb, dir |-> sh.dir, exc |-> sh.exc, any |-> FALSE, sub |-> "X", objs |-> O] :
                  sh \in MShape, O \in {{"Y"}, {"Y", "Z"}}}
              \cup {[verb |-> "should_not", dir |-> d, exc |-> FALSE, any |-> TRUE, sub |-> "Y", objs |-> {}] : d \in Dirs}
MDiagCfgs == {[comps |-> {RA, RB, RC}, deps |-> D, only |-> o] :
                 D \in {{<<RA, RB>>}, {<<RA, RB>>, <<RB, RC>>}, {<<RC, RA>>, <<RC, RB>>}}, o \in BOOLEAN}

MAliasDoms == {{RA}, {RA, <<"r","a","x">>}, {<<"r">>, RB}, {RB, <<"r","q">>}}       \* the last one names a module that does not exist
MQueryCfgs == {[q |-> q, dep |-> {NFn(p[1])}, upon |-> {NFn(p[2])}] : q \in {"deps", "other_from", "other_on"}, p \in {<<RA, RB>>, <<RC, RA>>}}
              \cup {[q |-> "deps", dep |-> {NFn(RA), NFn(RB)}, upon |-> {NFn(RC)}],
                    [q |-> "other_from", dep |-> {SFn(RA)}, upon |-> {NFn(RB)}]}

Spec == SSpec
View == <<archs, objs, results>>

\* (R) emission: the history of a behaviour once it has the wanted length (tlc -simulate) / of every state (BFS)
EmitHist == (EMIT /\ Len(hist) = EmitLen) => PrintT("HIST " \o ToJson(hist))
=============================================================================
