SPECIFICATION Spec
CONSTANTS
  World = "W4"
  EMIT = TRUE
INVARIANT EmitState
CHECK_DEADLOCK FALSE
