------------------------------- MODULE Graph -------------------------------
(***************************************************************************)
(* How the library BUILDS an architecture from a list of modules and a     *)
(* list of imports (NetworkxGraph._initialise), as an algorithm: one       *)
(* action per processed list element, in whatever order the lists happen   *)
(* to be (directory enumeration order, hash order of sets upstream), with  *)
(* the level limit applied while building.  Structured like the code:      *)
(*                                                                         *)
(*   AddModule(m)    _add_all_modules_as_nodes, one loop iteration:        *)
(*                   node for m, then parents + hierarchy edges            *)
(*   AddImport(i)    _initialise, one loop iteration: import edge if both  *)
(*                   ends are known modules; hierarchy of the importer;    *)
(*                   hierarchy edges along the importee's ancestor chain   *)
(*   CreateNode / CreateEdge   the two primitives, with the code's guards: *)
(*                   names are flattened to the level limit first; an edge *)
(*                   needs both nodes to exist; ONE edge per pair, whose   *)
(*                   `inherits` flag the last writer decides               *)
(*                                                                         *)
(* What must come out (Expected) is stated without any order: nodes = the  *)
(* flattened modules and their ancestors, hierarchy = parent/child pairs   *)
(* of the names (C04), imports = the flattened imports between known       *)
(* modules (C02), and the whole thing is the quotient of the unlimited     *)
(* build (C09).  Since Expected mentions no order, `BuildsExpected` is     *)
(* order independence (C15).                                               *)
(***************************************************************************)
EXTENDS Names, FiniteSetsExt, TLC

CONSTANTS Universe,      \* names modules may have (a small tree, possibly with gaps)
          CandImps,      \* candidate imports <<importer, importee>>; importees may be names that are no module
          Keeps,         \* level limits to explore, as number of components kept; 0 = no limit
          MaxMods, MaxImps,
          ParentsFirst   \* TRUE: the code as it is; FALSE: the linking order before repair 2892f96

VARIABLES mods, imps, keep,          \* the input: chosen once, then fixed
          todoM, todoI,              \* list elements not processed yet (any order)
          nodes, edges               \* the graph: nodes; edges = function <<u, v>> -> inherits flag
gvars == <<mods, imps, keep, todoM, todoI, nodes, edges>>

Flat(k, m) == IF k = 0 THEN m ELSE Trunc(m, k)
ParentChain(m) == [i \in 1..(Len(m) - 1) |-> SubSeq(m, 1, i)]        \* get_parent_modules: root first
Known(M) == M \cup UNION {Parents(m) : m \in M}

(* ------------------------------------------------------- the primitives *)
CreateNode(N, k, m) == N \cup {Flat(k, m)}

\* _create_edge: both ends flattened; nothing for a self edge; both nodes must exist; an existing edge with the same
\* flag is left alone, one with the other flag is overwritten
CreateEdge(N, E, k, u, v, inh) ==
    LET a == Flat(k, u)  b == Flat(k, v) IN
    IF a = b \/ a \notin N \/ b \notin N THEN E
    ELSE IF <<a, b>> \in DOMAIN E /\ E[<<a, b>>] = inh THEN E
    ELSE (<<a, b>> :> inh) @@ E

\* _add_edges_within_module_hierarchy(parents, child): all parent nodes, then the chain of hierarchy edges
RECURSIVE ChainEdges(_, _, _, _, _)
ChainEdges(N, E, k, chain, i) ==
    IF i >= Len(chain) THEN E
    ELSE ChainEdges(N, CreateEdge(N, E, k, chain[i], chain[i + 1], TRUE), k, chain, i + 1)

\* ... as it was before repair 2892f96 (ParentsFirst = FALSE): each parent node was created in the loop iteration in
\* which it is the START of the edge, so the edge INTO a parent that did not exist yet was skipped.  Kept as a named
\* deviation: with it TLC must refute BuildsExpected (the harness checks that it does).
RECURSIVE ChainInterleaved(_, _, _, _, _)
ChainInterleaved(N, E, k, chain, i) ==
    IF i >= Len(chain) THEN [nodes |-> N, edges |-> E]
    ELSE LET N2 == N \cup {Flat(k, chain[i])} IN
         ChainInterleaved(N2, CreateEdge(N2, E, k, chain[i], chain[i + 1], TRUE), k, chain, i + 1)

AddHierarchy(N, E, k, child) ==
    LET chain == Append(ParentChain(child), child)
        N2 == N \cup {Flat(k, p) : p \in Parents(child)} IN
    IF ParentsFirst THEN [nodes |-> N2, edges |-> ChainEdges(N2, E, k, chain, 1)]
    ELSE ChainInterleaved(N, E, k, chain, 1)

(* ------------------------------------------------------------- actions *)
GInit ==
    /\ mods \in UNION {kSubset(n, Universe) : n \in 1..MaxMods}
    /\ imps \in UNION {kSubset(n, CandImps) : n \in 0..MaxImps}
    /\ \A e \in imps : e[1] \in mods                       \* an importer is a scanned file
    /\ keep \in Keeps
    /\ todoM = mods /\ todoI = imps /\ nodes = {} /\ edges = <<>>

AddModule(m) ==
    /\ m \in todoM
    /\ LET g == AddHierarchy(CreateNode(nodes, keep, m), edges, keep, m) IN
       nodes' = g.nodes /\ edges' = g.edges
    /\ todoM' = todoM \ {m}
    /\ UNCHANGED <<mods, imps, keep, todoI>>

AddImport(e) ==
    /\ todoM = {} /\ e \in todoI
    /\ LET known == keep = 0 \/ (e[1] \in Known(mods) /\ e[2] \in Known(mods))      \* _is_known_module
           E1 == IF known THEN CreateEdge(nodes, edges, keep, e[1], e[2], FALSE) ELSE edges
           g  == AddHierarchy(nodes, E1, keep, e[1])
           \* the importee's chain: edges only, no nodes are created for it
           E3 == ChainEdges(g.nodes, g.edges, keep, Append(ParentChain(e[2]), e[2]), 1)
       IN nodes' = g.nodes /\ edges' = E3
    /\ todoI' = todoI \ {e}
    /\ UNCHANGED <<mods, imps, keep, todoM>>

GNext == (\E m \in Universe : AddModule(m)) \/ (\E e \in CandImps : AddImport(e))
GSpec == GInit /\ [][GNext]_gvars
Done == todoM = {} /\ todoI = {}

(* ------------------------------------------------- what must come out *)
NameTreeOf(N) == {<<SubSeq(m, 1, Len(m) - 1), m>> : m \in {m \in N : Len(m) > 1}}

\* order-free statement of the result
ExpNodes(M, k)   == {Flat(k, m) : m \in Known(M)}
ExpImports(M, I, k) ==
    {<<Flat(k, e[1]), Flat(k, e[2])>> :
        e \in {e \in I : /\ e[1] \in Known(M) /\ e[2] \in Known(M)
                         /\ Flat(k, e[1]) # Flat(k, e[2])
                         \* a parent importing its own direct child: the graph holds one edge per pair and the
                         \* hierarchy keeps it (such an import cannot be represented - outside the domain, DESIGN 5)
                         /\ ~DirectChild(Flat(k, e[1]), Flat(k, e[2]))}}

Hier    == {p \in DOMAIN edges : edges[p]}
Imports == {p \in DOMAIN edges : ~edges[p]}

\* C04 / C02 / C15 at the level of the construction algorithm: whatever the processing order
BuildsExpected ==
    Done => /\ nodes = ExpNodes(mods, keep)
            /\ Hier = NameTreeOf(nodes)
            /\ Imports = ExpImports(mods, imps, keep)
\* C09 at the level of the construction algorithm: building with a limit gives the quotient of building without
QuotientOfUnlimited ==
    (Done /\ keep # 0) =>
        /\ nodes = {Trunc(m, keep) : m \in ExpNodes(mods, 0)}
        /\ Imports = {<<Trunc(e[1], keep), Trunc(e[2], keep)>> :
                        e \in {e \in ExpImports(mods, imps, 0) : Trunc(e[1], keep) # Trunc(e[2], keep)}}
                     \ NameTreeOf(nodes)
\* every intermediate graph is well-formed: edges join existing nodes, hierarchy edges are parent/child pairs of names
WellFormed ==
    /\ \A p \in DOMAIN edges : p[1] \in nodes /\ p[2] \in nodes /\ p[1] # p[2]
    /\ Hier \subseteq NameTreeOf(nodes)
\* (vacuity guard, expected to be VIOLATED) some build has an import that the limit folds into one module
NoImportFolded == ~(Done /\ keep # 0 /\ \E e \in imps : e[1] \in Known(mods) /\ e[2] \in Known(mods)
                                                        /\ Flat(keep, e[1]) = Flat(keep, e[2]))
=============================================================================
