SPECIFICATION Spec
CONSTANTS
  EMIT = TRUE
  Small = FALSE
INVARIANT EmitState
CHECK_DEADLOCK FALSE
