SPECIFICATION Spec
CONSTANTS
  MaxSteps = 6
  EMIT = FALSE
VIEW View
INVARIANT WF
INVARIANT RestrictLaw
INVARIANT ParentRelative
INVARIANT ExclusionLaw
INVARIANT QuotientVerdict
INVARIANT ExternalLaw
PROPERTY StatementLaw
CHECK_DEADLOCK FALSE
