----------------------------- MODULE Trace_Scan -----------------------------
(***************************************************************************)
(* Trace specification for get_evaluable_architecture (C02 C04 C08 C09 C10, *)
(* scan part of C14 C15).                                                   *)
(*   proj   the project on disk (as rendered by the harness and re-listed    *)
(*          from disk): directories, files, import statements                *)
(*   scan   one call of an entry point with its configuration and the        *)
(*          architecture it returned (modules / imports) or the error        *)
(*   seval  a module rule evaluated on a scanned architecture (verdict)      *)
(*   law    a relation between recorded scans / evaluations                  *)
(* Exclusion patterns are matched HERE, character by character, with         *)
(* Glob!GlobMatch on the same path strings the code sees; match sets of      *)
(* user regexes are inputs (computed by the harness with re.match).          *)
(***************************************************************************)
EXTENDS Scan, Glob, RuleSem, TLC, Json, IOUtils

TraceLog == ndJsonDeserialize(IOEnv.TRACE_FILE)
VARIABLES l, proj, scans, evals
vars == <<l, proj, scans, evals>>

Report(prop, clause, detail) ==
    PrintT("FAIL " \o ToJson([line |-> l, prop |-> prop, clause |-> clause, detail |-> detail]))
IsEvent(k) == l <= Len(TraceLog) /\ TraceLog[l].k = k /\ l' = l + 1
PairSet(js) == {<<x[1], x[2]>> : x \in SeqToSet(js)}

ProjOf(j) == [dirs  |-> SeqToSet(j.dirs),
              files |-> {[name |-> f.name, py |-> f.py] : f \in SeqToSet(j.files)},
              stmts |-> {[file |-> s.file, form |-> s.form, level |-> s.level, module |-> s.module,
                          names |-> s.names, pos |-> s.pos, lay |-> s.lay] : s \in SeqToSet(j.stmts)}]

ProjStep ==
    /\ IsEvent("proj")
    /\ LET j == TraceLog[l]  P == ProjOf(j) IN
       /\ IF ProjectWF(P) THEN TRUE ELSE Report("MACHINERY", "project-not-wellformed", j.id)
       /\ proj' = P
       /\ scans' = IF j.first THEN <<>> ELSE scans
       /\ evals' = IF j.first THEN <<>> ELSE evals

(* ---------------------------------------------------------------- scan *)
\* entries directly matched by the exclusion option of this call
DirectlyExcluded(j) ==
    IF j.excl.kind = "glob"
    THEN {e.name : e \in {e \in SeqToSet(j.excl.subjects) : AnyMatch(SeqToSet(j.excl.patterns), e.chars)}}
    ELSE SeqToSet(j.excl.matched)            \* "regex": re.match by the harness; "none": empty
ExtDirectlyExcluded(j) ==
    IF j.extexcl.kind = "glob"
    THEN {e.name : e \in {e \in SeqToSet(j.extexcl.subjects) : AnyMatch(SeqToSet(j.extexcl.patterns), e.chars)}}
    ELSE SeqToSet(j.extexcl.matched)

CfgOf(j) == [mpath |-> j.mpath, excluded |-> DirectlyExcluded(j), limit |-> j.limit, ext |-> j.ext,
             extexcl |-> ExtDirectlyExcluded(j)]
ObsOf(j) == [modules |-> SeqToSet(j.modules), imports |-> PairSet(j.imports)]
\* parent/child pairs among a set of names
NameTree(M) == {<<SubSeq(m, 1, Len(m) - 1), m>> : m \in {m \in M : Len(m) > 1}}

Expected(P, c) ==
    LET n == KeepLen(c)
        Q(S) == IF c.limit = 0 THEN S ELSE {Trunc(m, n) : m \in S}
        QE(E) == IF c.limit = 0 THEN E
                 ELSE {<<Trunc(e[1], n), Trunc(e[2], n)>> : e \in {e \in E : Trunc(e[1], n) # Trunc(e[2], n)}}
        intM == InternalMods(P, c)
        extI == IF c.ext THEN ExternalImports(P, c) ELSE {}
        extM == UNION {Parents(e[2]) \cup {e[2]} : e \in extI}
        must == MustImports(P, c)
        may  == MayImports(P, c)
    IN [modules  |-> Q(intM \cup extM),
        internal |-> Q(intM),
        must     |-> QE(must \cup extI),
        may      |-> QE(may \cup extI),
        extimp   |-> QE(extI)]

\* names at or below a directly excluded entry
UnderExcluded(c, m) == \E x \in c.excluded : Anc(x, m)

ScanFails(j, P) ==
    LET c   == CfgOf(j)
        obs == ObsOf(j)
        exp == Expected(P, c)
        missM == exp.modules \ obs.modules
        extraM == obs.modules \ exp.modules
        missI == exp.must \ obs.imports
        extraI == obs.imports \ exp.may
        pos(e) == {s.pos : s \in {s \in StmtsOf(P, c) : s.file = e[1] /\ e[2] \in Named(P, c, s).must}}
    IN
    IF c.mpath \notin P.dirs THEN {<<"MACHINERY", "module-path-not-a-directory-of-the-project", "">>}
    ELSE IF j.out # "ok" THEN {<<"C04", "scan-raised-an-error", j.err>>}
    ELSE
      \* the hierarchy the architecture holds is the parent/child relation of its module names (C04; under a level
      \* limit C09: the quotient is an architecture like any other)
      (IF "hier" \notin DOMAIN j \/ PairSet(j.hier) = NameTree(obs.modules) THEN {}
       ELSE IF c.limit # 0 THEN {<<"C09", "hierarchy-of-level-limited-architecture-differs-from-its-names",
                                   [lost |-> NameTree(obs.modules) \ PairSet(j.hier), extra |-> PairSet(j.hier) \ NameTree(obs.modules)]>>}
       ELSE {<<"C04", "hierarchy-differs-from-the-module-names",
               [lost |-> NameTree(obs.modules) \ PairSet(j.hier), extra |-> PairSet(j.hier) \ NameTree(obs.modules)]>>})
      \cup
      (IF missM = {} THEN {}
       ELSE IF \E m \in missM : m \notin exp.internal THEN {<<"C10", "external-module-or-ancestor-missing", missM>>}
       ELSE IF c.limit # 0 THEN {<<"C09", "module-missing-under-level-limit", missM>>}
       ELSE IF c.excluded # {} THEN {<<"C08", "module-removed-that-no-exclusion-matches", missM>>}
       ELSE {<<"C04", "file-or-directory-without-module", missM>>})
      \cup
      (IF extraM = {} THEN {}
       ELSE IF \E m \in extraM : UnderExcluded(c, m) THEN {<<"C08", "excluded-entry-still-a-module", extraM>>}
       ELSE IF c.ext THEN {<<"C10", "module-that-is-neither-scanned-nor-an-imported-external", extraM>>}
       ELSE IF c.limit # 0 THEN {<<"C09", "module-below-the-level-limit", extraM>>}
       ELSE {<<"C04", "module-without-file-or-directory", extraM>>})
      \cup
      (IF missI = {} THEN {}
       ELSE IF \E e \in missI : e \in exp.extimp THEN {<<"C10", "import-of-external-module-missing", missI>>}
       ELSE IF c.limit # 0 /\ c.excluded = {} THEN {<<"C02,C09", "import-statement-without-edge-under-level-limit", missI>>}
       \* an absolute name written relative to module_path's parent directory (C04: both spellings resolve)
       ELSE IF \E e \in missI : \E s \in StmtsOf(P, c) : s.file = e[1] /\ s.level = 0 /\ Adjust(P, c, s.module) # s.module
                                                          /\ e[2] \in Named(P, c, s).must
            THEN {<<"C02,C04", "parent-relative-absolute-import-does-not-resolve", missI>>}
       ELSE {<<"C02", "import-statement-without-edge", [edges |-> missI, positions |-> UNION {pos(e) : e \in missI}]>>})
      \cup
      (IF extraI = {} THEN {}
       ELSE IF \E e \in extraI : UnderExcluded(c, e[1]) \/ UnderExcluded(c, e[2])
            THEN {<<"C08", "import-of-or-by-an-excluded-entry", extraI>>}
       ELSE IF \E e \in extraI : e[2] \notin exp.internal THEN {<<"C10", "import-of-unexpected-external-module", extraI>>}
       ELSE IF ~c.ext /\ \E e \in extraI : ~Anc(Trunc(c.mpath, IF c.limit = 0 THEN Len(c.mpath) ELSE KeepLen(c)), e[2])
            THEN {<<"C10", "import-to-a-module-outside-module-path-although-externals-excluded", extraI>>}
       ELSE {<<"C02", "edge-without-import-statement", extraI>>})

ScanStep ==
    /\ IsEvent("scan")
    /\ LET j == TraceLog[l]
           rec == [cfg |-> CfgOf(j), out |-> j.out, obs |-> ObsOf(j), entry |-> j.entry] IN
       /\ \A f \in ScanFails(j, proj) : Report(f[1], f[2], [scan |-> j.id, what |-> f[3]])
       /\ scans' = (j.id :> rec) @@ scans
    /\ UNCHANGED <<proj, evals>>

(* --------------------------------------------------------------- seval *)
FiltersOf(js) == {[kind |-> f.kind, name |-> f.name] : f \in SeqToSet(js)}
RuleOf(j) == [verb |-> j.verb, dir |-> j.dir, exc |-> j.exc, any |-> j.any, subs |-> FiltersOf(j.subs), objs |-> FiltersOf(j.objs)]

SEvalStep ==
    /\ IsEvent("seval")
    /\ LET j == TraceLog[l]  r == RuleOf(j.rule)  A == scans[j.scan].obs
           D == Den(A.modules, r.subs \cup r.objs)
           cands == {o \in Allowed(D, A.imports, r) : o.pass = (j.out = "pass")} IN
       \* the verdict on a scanned architecture follows the rule semantics on the architecture as observed
       /\ IF ~NamesKnown(A.modules, r) THEN (IF j.out = "error" THEN TRUE ELSE Report("C13", "unknown-name-must-be-an-error", j.rid))
          ELSE IF j.out = "error" THEN Report("C01", "well-formed-rule-raised-an-error", j.rid)
          ELSE IF Strict(r) /\ cands = {} THEN Report("C01", "verdict", j.rid) ELSE TRUE
       /\ IF j.same THEN TRUE ELSE Report("C15", "architecture-changed-by-evaluation", j.rid)
       /\ evals' = (<<j.scan, j.rid>> :> [rule |-> r, out |-> j.out]) @@ evals
    /\ UNCHANGED <<proj, scans>>

(* ----------------------------------------------------------------- law *)
SameButFor(c1, c2, fields) ==
    /\ ("mpath" \in fields \/ c1.mpath = c2.mpath) /\ ("excluded" \in fields \/ c1.excluded = c2.excluded)
    /\ ("limit" \in fields \/ c1.limit = c2.limit) /\ ("ext" \in fields \/ (c1.ext = c2.ext /\ c1.extexcl = c2.extexcl))

\* depth condition of C09 for a rule: named modules at most n components, 'sub modules of' parents fewer
AboveLimit(r, n) == \A f \in r.subs \cup r.objs : IF f.kind = "named" THEN Len(f.name) <= n ELSE Len(f.name) < n

LawFails(j, P) ==
    LET S(i) == scans[j.scans[i]]
        c(i) == S(i).cfg
        o(i) == S(i).obs
        ok   == \A i \in DOMAIN j.scans : S(i).out = "ok"
        Bind(b, name) == IF b THEN {} ELSE {<<"MACHINERY", name>>}
        Law(b, prop, name) == IF b THEN {} ELSE {<<prop, name>>}
    IN
    IF ~ok THEN (IF j.law = "same" /\ S(1).out # S(2).out /\ c(1) = c(2)       \* one call fails, its twin does not
                 THEN {<<"C15", "two-scans-of-the-same-tree-differ">>} ELSE {})
    ELSE CASE j.law = "same" ->       \* the same call again: other process order, hash seed, directory enumeration order
              Bind(c(1) = c(2), "same-binding") \cup Law(o(1) = o(2), "C15", "two-scans-of-the-same-tree-differ")
      [] j.law = "entry" ->          \* module-object entry point vs. path entry point
              Bind(c(1) = c(2) /\ S(1).entry # S(2).entry, "entry-binding")
              \cup Law(o(1) = o(2), "C04", "module-object-entry-point-differs-from-path-entry-point")
      [] j.law = "restrict" ->       \* 1: root scan, 2: scan of a sub directory; statements root-qualified or relative
              Bind(SameButFor(c(1), c(2), {"mpath"}) /\ c(1).mpath = Root(P) /\ c(1).limit = 0, "restrict-binding")
              \cup (IF \E s \in StmtsOf(P, c(2)) : s.level = 0 /\ Adjust(P, c(2), s.module) # s.module THEN {}
                    ELSE Law(o(2).modules = RestrictArch(o(1), c(2).mpath).modules, "C04", "sub-scan-modules-differ-from-restricted-root-scan")
                         \cup Law(o(2).imports = RestrictArch(o(1), c(2).mpath).imports, "C04", "sub-scan-imports-differ-from-restricted-root-scan"))
      [] j.law = "excl" ->           \* 1: scan without the exclusion, 2: with it (externals excluded in both)
              Bind(SameButFor(c(1), c(2), {"excluded"}) /\ c(1).excluded = {} /\ c(1).limit = 0 /\ ~c(1).ext, "excl-binding")
              \cup LET gone == {m \in o(1).modules : UnderExcluded(c(2), m)}
                       kept == IF c(2).mpath \in c(2).excluded THEN {} ELSE o(1).modules \ gone
                       keptI == {e \in o(1).imports : e[1] \in kept /\ e[2] \in kept}
                   IN Law(o(2).modules \subseteq kept, "C08", "exclusion-leaves-or-adds-a-module-it-should-remove")
                      \cup Law(kept \subseteq o(2).modules, "C08", "exclusion-removes-a-module-it-does-not-match")
                      \cup Law(keptI \subseteq o(2).imports, "C08", "exclusion-removes-an-import-between-remaining-modules")
                      \* (a 'from P import n' whose n was excluded now names P: accounted for by the statement)
                      \cup Law(o(2).imports \subseteq keptI \cup Expected(P, c(2)).may, "C08", "exclusion-adds-an-import")
      [] j.law = "quotient" ->       \* 1: no level limit, 2: level_limit k
              Bind(SameButFor(c(1), c(2), {"limit"}) /\ c(1).limit = 0 /\ c(2).limit > 0, "quotient-binding")
              \cup Law(o(2).modules = Quotient(o(1), KeepLen(c(2))).modules, "C09", "limited-modules-are-not-the-truncated-names")
              \cup Law(o(2).imports = Quotient(o(1), KeepLen(c(2))).imports, "C09", "limited-imports-are-not-the-quotient")
      [] j.law = "internal" ->       \* two scans that differ only in the external options
              Bind(SameButFor(c(1), c(2), {"ext"}), "internal-binding")
              \* internal = at or below module_path (its ancestor packages lie outside module_path: an import of
              \* one of them is an import of an external module)
              \cup LET M == {m \in Expected(P, c(1)).internal : Anc(Trunc(c(1).mpath, IF c(1).limit = 0 THEN Len(c(1).mpath) ELSE KeepLen(c(1))), m)} IN
                   Law(InternalPart(o(1), M) = InternalPart(o(2), M), "C10", "external-options-change-the-internal-part")
                   \cup Law(\A i \in {1, 2} : ~c(i).ext => o(i).modules \subseteq Expected(P, c(1)).internal, "C10", "module-outside-module-path-although-externals-excluded")
      [] j.law = "verdict" ->        \* the same rule on the full and on the level-limited architecture
              LET e1 == evals[<<j.scans[1], j.rid>>]  e2 == evals[<<j.scans[2], j.rid>>] IN
              Bind(SameButFor(c(1), c(2), {"limit"}) /\ c(1).limit = 0 /\ c(2).limit > 0 /\ e1.rule = e2.rule
                     /\ AboveLimit(e1.rule, KeepLen(c(2))) /\ Strict(e1.rule), "verdict-binding")
              \cup Law(e1.out = e2.out, "C09", "verdict-changes-under-level-limit")
      [] OTHER -> {<<"MACHINERY", "unknown-law">>}

LawStep ==
    /\ IsEvent("law")
    /\ LET j == TraceLog[l] IN \A f \in LawFails(j, proj) : Report(f[1], f[2], [law |-> j.law, scans |-> j.scans])
    /\ UNCHANGED <<proj, scans, evals>>

TraceInit == l = 1 /\ proj = [dirs |-> {}, files |-> {}, stmts |-> {}] /\ scans = <<>> /\ evals = <<>>
TraceNext == ProjStep \/ ScanStep \/ SEvalStep \/ LawStep
TraceSpec == TraceInit /\ [][TraceNext]_vars
TraceAccepted == TLCGet("stats").diameter - 1 = Len(TraceLog)
=============================================================================
