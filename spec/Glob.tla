-------------------------------- MODULE Glob --------------------------------
(***************************************************************************)
(* The "partial match" (glob-style) patterns of exclusions and external    *)
(* exclusions - C08, C10.  Patterns and subjects are sequences of           *)
(* characters (one-character strings); TLC matches character by character. *)
(*                                                                         *)
(* Documented meaning (pytestarch.py docstring, docs/features/              *)
(* general.md, C08): the text is matched in full; a LEADING * allows any    *)
(* prefix, a TRAILING * allows any suffix; every other character - further  *)
(* stars and regex metacharacters included - is taken literally.            *)
(***************************************************************************)
EXTENDS Sequences, SequencesExt, Naturals

Star == "*"

Parse(p) ==
    LET ss == Len(p) > 0 /\ p[1] = Star
        se == Len(p) > 0 /\ p[Len(p)] = Star
    IN [ss |-> ss, se |-> se,
        core |-> SubSeq(p, IF ss THEN 2 ELSE 1, IF se THEN Len(p) - 1 ELSE Len(p))]

IsInfixAt(c, s, i) == i + Len(c) - 1 <= Len(s) /\ SubSeq(s, i, i + Len(c) - 1) = c

GlobMatch(p, s) ==
    LET q == Parse(p)  c == q.core IN
    CASE ~q.ss /\ ~q.se -> s = c
      [] q.ss  /\ ~q.se -> IsSuffix(c, s)
      [] ~q.ss /\ q.se  -> IsPrefix(c, s)
      [] OTHER          -> \E i \in 1..(Len(s) + 1) : IsInfixAt(c, s, i)

\* the same meaning stated by decomposition of the subject (used only to cross-check GlobMatch in MC_Glob)
GlobMatchByDecomposition(p, s) ==
    LET q == Parse(p) IN
    \E i \in 0..Len(s), j \in 0..Len(s) :
        /\ i <= j
        /\ SubSeq(s, i + 1, j) = q.core            \* s = pre \o core \o post
        /\ (i = 0 \/ q.ss)                         \* a non-empty prefix needs the leading star
        /\ (j = Len(s) \/ q.se)                    \* a non-empty suffix needs the trailing star

AnyMatch(P, s) == \E p \in P : GlobMatch(p, s)

\* regular expressions are applied with re.match: anchored at the start, open at the end.  The literal text t
\* used as a regex (no metacharacters in t) therefore means the glob  t*
LiteralRegexMatch(t, s) == IsPrefix(t, s)
=============================================================================
