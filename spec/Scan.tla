-------------------------------- MODULE Scan --------------------------------
(***************************************************************************)
(* get_evaluable_architecture: project on disk x configuration ->           *)
(* architecture (modules + imports).  C02 C04 C08 C09 C10.                  *)
(*                                                                         *)
(* A project P is a record                                                  *)
(*   dirs  : set of directory names  (component sequences, root first:      *)
(*           <<"r">> is the root directory itself, <<"r","a">> = r/a)       *)
(*   files : set of [name, py]  (name = directory name \o <<stem>>;         *)
(*           py = it is a .py file)                                          *)
(*   stmts : set of import statements                                       *)
(*           [file, form, level, module, names, pos, lay]                    *)
(*             form "import":  import <module>           (names = <<>>)      *)
(*             form "from":    from <level dots><module> import <names>      *)
(*                             (module may be <<>>; a name may be "*")       *)
(*             pos: where in the file the statement stands (sequence of      *)
(*                  statement-list slots, <<>> = module level).  NO operator *)
(*                  below looks at pos: an import statement means the same   *)
(*                  wherever it stands (C02).                                 *)
(*             lay: how the statement is laid out in the source text: on a    *)
(*                  line of its own ("line"), after another statement on the  *)
(*                  same line ("semicolon"), on the header line of the        *)
(*                  compound statement it belongs to ("inline": if x: import  *)
(*                  a), or over several physical lines ("paren", "backslash"; *)
(*                  real trees: "multiline").  No operator looks at lay.      *)
(* A configuration c is a record                                            *)
(*   mpath    : the directory scanned (module_path), a member of P.dirs      *)
(*   excluded : entries (dirs / files) DIRECTLY matched by an exclusion      *)
(*   limit    : 0 = no level limit, k + 1 = level_limit k  (level_limit 0 is  *)
(*              legal: everything is truncated to module_path itself)         *)
(*   ext      : TRUE = external libraries included                           *)
(*   extexcl  : external module names directly matched by an external        *)
(*              exclusion pattern (only meaningful when ext)                 *)
(***************************************************************************)
EXTENDS Names

Root(P) == CHOOSE d \in P.dirs : Len(d) = 1

ProjectWF(P) ==
    /\ \E d \in P.dirs : Len(d) = 1
    /\ \A d, e \in P.dirs : (Len(d) = 1 /\ Len(e) = 1) => d = e
    /\ \A d \in P.dirs : \A a \in Parents(d) : a \in P.dirs
    /\ \A f \in P.files : Len(f.name) >= 2 /\ SubSeq(f.name, 1, Len(f.name) - 1) \in P.dirs
    /\ \A f \in P.files : f.name \notin P.dirs                        \* no a.py next to a/
    /\ \A f, g \in P.files : f.name = g.name => f = g
    /\ \A s \in P.stmts : [name |-> s.file, py |-> TRUE] \in P.files

Entries(P) == P.dirs \cup {f.name : f \in P.files}

(* ------------------------------------------------------------ visibility *)
\* An entry at or below mpath is scanned unless it, or a directory between mpath and it, is directly excluded.
Chain(c, e)    == {SubSeq(e, 1, i) : i \in Len(c.mpath)..Len(e)}       \* mpath, ..., e
Visible(P, c, e) == /\ e \in Entries(P) /\ Anc(c.mpath, e)
                    /\ \A x \in Chain(c, e) : x \notin c.excluded
VisibleDirs(P, c)  == {d \in P.dirs : Visible(P, c, d)}
VisibleFiles(P, c) == {f.name : f \in {f \in P.files : f.py /\ Visible(P, c, f.name)}}

\* C04: one module per scanned directory and .py file, plus the ancestor packages of every module
Scanned(P, c)      == VisibleDirs(P, c) \cup VisibleFiles(P, c)
InternalMods(P, c) == Scanned(P, c) \cup UNION {Parents(m) : m \in Scanned(P, c)}

(* --------------------------------------------------------------- imports *)
\* Absolute names may be written relative to module_path's parent directory when module_path # root_path
AbsPrefix(P, c) == IF c.mpath = Root(P) THEN <<>> ELSE SubSeq(c.mpath, 1, Len(c.mpath) - 1)
\* (the operators ...In take the scanned set S and the prefix as arguments, so that TLC computes them once per scan)
AdjustIn(S, pre, t) == IF pre # <<>> /\ (pre \o t) \in S THEN pre \o t ELSE t
Adjust(P, c, t) == AdjustIn(Scanned(P, c), AbsPrefix(P, c), t)

LevelOK(s) == s.level < Len(s.file)

\* what one statement names.  must: the modules C02 says it names;  may: names the statement also accounts for
\* ('from P import n' with P.n a module: P itself is accounted for, not required)
NamedIn(S, pre, s) ==
    IF s.form = "import"
    THEN [must |-> {AdjustIn(S, pre, s.module)}, may |-> {AdjustIn(S, pre, s.module)}]
    ELSE LET B == IF s.level = 0 THEN AdjustIn(S, pre, s.module)          \* the package the module part is resolved against
                  ELSE SubSeq(s.file, 1, Len(s.file) - s.level) \o s.module
             sub(n) == IF n # "*" /\ Append(B, n) \in S THEN Append(B, n) ELSE B
         IN [must |-> {sub(s.names[i]) : i \in DOMAIN s.names},
             may  |-> {B} \cup {sub(s.names[i]) : i \in DOMAIN s.names}]
Named(P, c, s) == NamedIn(Scanned(P, c), AbsPrefix(P, c), s)

StmtsOf(P, c) == LET V == VisibleFiles(P, c) IN {s \in P.stmts : s.file \in V /\ LevelOK(s)}

\* imports between internal modules.  Imports of the importing file's own ancestor packages (and of itself) are
\* outside C02's claim: never required, always accounted for.
OwnAncestor(f, t) == Anc(t, f)
MustImports(P, c) ==
    LET S == Scanned(P, c)  pre == AbsPrefix(P, c)  M == InternalMods(P, c) IN
    UNION {{<<s.file, t>> : t \in {t \in NamedIn(S, pre, s).must : t \in M /\ ~OwnAncestor(s.file, t)}} : s \in StmtsOf(P, c)}
\* (an ancestor package of module_path lies outside module_path: with external libraries excluded there is no import
\* to it, C10; with externals included an import of it is accounted for)
MayImports(P, c) ==
    LET S == Scanned(P, c)  pre == AbsPrefix(P, c)  M == InternalMods(P, c)
        Allowed(t) == t \in M /\ (c.ext \/ Anc(c.mpath, t)) IN
    UNION {{<<s.file, t>> : t \in {t \in NamedIn(S, pre, s).may : Allowed(t)}} : s \in StmtsOf(P, c)}
    \cup UNION {{<<f, a>> : a \in {a \in Parents(f) : Allowed(a)}} : f \in VisibleFiles(P, c)}

\* external targets: named by some statement, outside module_path's name space.  (A name inside that name space
\* that is no scanned module - a dangling import, or the 'n' of 'from . import n' that is a function - is neither
\* an internal module nor an external one: it contributes nothing.)
ExternalNamed(P, c) ==
    LET S == Scanned(P, c)  pre == AbsPrefix(P, c)  M == InternalMods(P, c) IN
    UNION {{<<s.file, t>> : t \in {t \in NamedIn(S, pre, s).must : t \notin M /\ t # <<>> /\ ~Anc(c.mpath, t)}} : s \in StmtsOf(P, c)}

(* ---------------------------------------------------------- restrictions *)
\* C04: scanning a sub directory = scanning the root and restricting to the sub tree
RestrictArch(A, sub) == [modules |-> {m \in A.modules : Related(sub, m)},
                         imports |-> {e \in A.imports : Anc(sub, e[1]) /\ Anc(sub, e[2])}]

\* C08: what an exclusion removes: the names of entries that are not visible any more
Removed(P, c0, c1) == Scanned(P, c0) \ Scanned(P, c1)

\* C09: level_limit k on a scan of mpath keeps Len(mpath) + k components of every name (c.limit = k + 1)
KeepLen(c) == Len(c.mpath) + c.limit - 1
Quotient(A, n) == [modules |-> {Trunc(m, n) : m \in A.modules},
                   imports |-> {<<Trunc(e[1], n), Trunc(e[2], n)>> : e \in {e \in A.imports : Trunc(e[1], n) # Trunc(e[2], n)}}]

\* C10: the internal part of an architecture (root component = the project's root directory)
InternalPart(A, M) == [modules |-> A.modules \cap M,
                       imports |-> {e \in A.imports : e[1] \in M /\ e[2] \in M}]
\* an external module is retained unless it or one of its ancestors is directly matched by an external exclusion
Retained(c, t) == \A x \in Parents(t) \cup {t} : x \notin c.extexcl
ExternalImports(P, c) == {e \in ExternalNamed(P, c) : Retained(c, e[2])}
ExternalMods(P, c)    == UNION {Parents(e[2]) \cup {e[2]} : e \in ExternalImports(P, c)}
=============================================================================
