----------------------------- MODULE Trace_Layers -----------------------------
(***************************************************************************)
(* Trace specification for layer rules (C05, layer attribution of C14).     *)
(*   arch    architecture as observed                                        *)
(*   leval   LayerRule...assert_applies(arch): layers as defined (regex      *)
(*           layers with their match set), rule, verdict, parsed message     *)
(*   law     relations between recorded evaluations (same / rename / drop    *)
(*           unmentioned layers / intra-layer import added)                  *)
(***************************************************************************)
EXTENDS LayerSem, TLC, Json, IOUtils

TraceLog == ndJsonDeserialize(IOEnv.TRACE_FILE)
VARIABLES l, archs, results
vars == <<l, archs, results>>

Report(prop, clause, detail) ==
    PrintT("FAIL " \o ToJson([line |-> l, prop |-> prop, clause |-> clause, detail |-> detail]))
IsEvent(k) == l <= Len(TraceLog) /\ TraceLog[l].k = k /\ l' = l + 1
PairSet(js) == {<<p[1], p[2]>> : p \in SeqToSet(js)}
ArchOf(j)   == [modules |-> SeqToSet(j.modules), imports |-> PairSet(j.imports)]

LMap(js) == [n \in {js[i].name : i \in DOMAIN js} |->
                SeqToSet(js[CHOOSE i \in DOMAIN js : js[i].name = n].listed)]
LRuleOf(j) == [verb |-> j.verb, dir |-> j.dir, exc |-> j.exc, any |-> j.any, sub |-> j.sub, objs |-> SeqToSet(j.objs)]
LObsOf(j) == [pass     |-> j.out = "pass",
              realised |-> {<<x.imp[1], x.imp[2]>> : x \in SeqToSet(j.real)},
              medge    |-> {<<m.sub, SeqToSet(m.objs)>> : m \in {m \in SeqToSet(j.miss) : ~m.other}},
              mother   |-> {<<m.sub, SeqToSet(m.objs)>> : m \in {m \in SeqToSet(j.miss) : m.other}}]

ArchStep ==
    /\ IsEvent("arch")
    /\ LET j == TraceLog[l] IN
       /\ archs' = IF j.first THEN (j.a :> ArchOf(j)) ELSE (j.a :> ArchOf(j)) @@ archs
       /\ results' = IF j.first THEN <<>> ELSE results

\* tag shown behind a module in a realised line: the layer it belongs to; for modules of layers the rule does not
\* mention either that layer's name or "(no layer)" is accepted (C05 treats them like modules in no layer)
TagOK(T, L, r, m, tag) ==
    LET n == LayerOf(T, L, m) IN
    IF n = "" THEN tag = ""
    ELSE IF n \in Mentioned(LNorm(r)) THEN tag = n
    ELSE tag \in {n, ""}

LEvalFails(j, T, I) ==
    LET L   == LMap(j.layers)
        r   == LRuleOf(j.rule)
        obs == LObsOf(j)
        exp == LOutcome(T, L, I, r)
        nomatch == \E i \in DOMAIN j.layers : j.layers[i].listed = <<>> /\ j.layers[i].name \in Mentioned(LNorm(r))
    IN
    IF ~LRuleWF(L, r) THEN {<<"MACHINERY", "layer-rule-outside-domain">>}
    ELSE IF nomatch THEN (IF j.out = "error" THEN {} ELSE {<<"C13", "layer-regex-without-match-must-be-an-error">>})
    ELSE IF ~LayersWF(T, Restricted(L, LNorm(r))) THEN {<<"MACHINERY", "layers-outside-domain">>}
    ELSE IF j.out = "error" THEN {<<"C05", "well-formed-layer-rule-raised-an-error">>}
    ELSE (IF exp.pass = obs.pass THEN {} ELSE {<<"C05", "layer-verdict">>})
         \cup (IF j.bad = <<>> THEN {} ELSE {<<"C03,C05", "layer-unparsable-line">>})
         \cup (IF exp.pass # obs.pass THEN {} ELSE
                 (IF exp.realised = obs.realised THEN {} ELSE {<<"C03,C05", "layer-realised-lines">>})
                 \cup (IF exp.medge = obs.medge THEN {} ELSE {<<"C03,C05", "layer-missing-access-lines">>})
                 \cup (IF exp.mother = obs.mother THEN {} ELSE {<<"C03,C05", "layer-missing-other-lines">>})
                 \cup (IF LayersWF(T, L) =>
                            \A x \in SeqToSet(j.real) : TagOK(T, L, r, x.imp[1], x.tags[1]) /\ TagOK(T, L, r, x.imp[2], x.tags[2])
                       THEN {} ELSE {<<"C14,C05", "layer-tag-of-module">>}))

LEvalStep ==
    /\ IsEvent("leval")
    /\ LET j == TraceLog[l]  a == archs[j.a]
           key == <<j.a, j.rid>>
           rec == [rule |-> LRuleOf(j.rule), layers |-> LMap(j.layers), out |-> j.out, obs |-> LObsOf(j)] IN
       /\ \A f \in LEvalFails(j, a.modules, a.imports) : Report(f[1], f[2], j.rid)
       /\ IF j.same THEN TRUE ELSE Report("C15", "architecture-changed-by-evaluation", j.rid)
       \* session replays (Session.tla) also evaluate the configuration in isolation - fresh architecture, fresh
       \* rule object - and log whether verdict and message were the same
       /\ IF "fresh_same" \in DOMAIN j /\ ~j.fresh_same
          THEN Report("C15", "outcome-depends-on-history-or-object-reuse", j.rid) ELSE TRUE
       \* building and evaluating a rule never alters the LayeredArchitecture it is based on (the object is shared
       \* by every rule of the episode, so an alteration would also show up in the outcomes of later rules)
       /\ IF j.def_same THEN TRUE ELSE Report("C05,C15,C16", "layer-definition-changed-by-rule", j.rid)
       /\ results' = IF j.keep THEN (key :> rec) @@ results ELSE results
    /\ UNCHANGED archs

LawFails(j) ==
    LET R == [i \in DOMAIN j.rids |-> results[<<j.as[i], j.rids[i]>>]]
        A(i) == archs[j.as[i]]
        Bind(ok, name) == IF ok THEN {} ELSE {<<"MACHINERY", name>>}
        Law(ok, prop, name) == IF ok THEN {} ELSE {<<prop, name>>}
    IN
    CASE j.law = "same" ->      \* same definition and rule again: other list order / object / definition form
            Bind(R[1].rule = R[2].rule /\ R[1].layers = R[2].layers /\ A(1) = A(2), "same-binding")
            \cup Law(R[1].out = R[2].out /\ R[1].obs = R[2].obs, "C15", "same-layer-rule-differs")
      [] j.law = "rename" ->
            Bind(R[1].rule = R[2].rule /\ R[1].layers = R[2].layers, "rename-binding")
            \cup Law(A(1) = A(2), "C14", "renaming-changes-the-architecture-built-from-the-same-modules-and-imports")
            \cup Law(R[1].out = R[2].out /\ R[1].obs = R[2].obs, "C14", "renaming-changes-layer-outcome")
      [] j.law = "drop" ->       \* unmentioned layers removed from the definition (however they were defined)
            Bind(R[1].rule = R[2].rule /\ A(1) = A(2)
                   /\ R[2].layers = Restricted(R[1].layers, LNorm(R[1].rule)), "drop-binding")
            \cup Law(R[1].out = R[2].out /\ R[1].obs = R[2].obs, "C05", "unmentioned-layer-changes-outcome")
      [] j.law = "intra" ->      \* one import added inside a layer: nothing may change
            Bind(R[1].rule = R[2].rule /\ R[1].layers = R[2].layers /\ A(1).modules = A(2).modules
                   /\ A(1).imports \subseteq A(2).imports
                   /\ \A e \in A(2).imports \ A(1).imports :
                         LayerOf(A(1).modules, R[1].layers, e[1]) # ""
                         /\ LayerOf(A(1).modules, R[1].layers, e[1]) = LayerOf(A(1).modules, R[1].layers, e[2]),
                 "intra-binding")
            \cup Law(R[1].out = R[2].out /\ R[1].obs = R[2].obs, "C05", "intra-layer-import-changes-outcome")
      [] OTHER -> {<<"MACHINERY", "unknown-law">>}

LawStep ==
    /\ IsEvent("law")
    /\ LET j == TraceLog[l] IN \A f \in LawFails(j) : Report(f[1], f[2], j.rids)
    /\ UNCHANGED <<archs, results>>

TraceInit == l = 1 /\ archs = <<>> /\ results = <<>>
TraceNext == ArchStep \/ LEvalStep \/ LawStep
TraceSpec == TraceInit /\ [][TraceNext]_vars
TraceAccepted == TLCGet("stats").diameter - 1 = Len(TraceLog)
=============================================================================
