---------------------------- MODULE Trace_Builders ----------------------------
(***************************************************************************)
(* Trace specification for the fluent builders (C13, C16, parts of C15):   *)
(* every recorded call is stepped through the automaton of Builders.tla,   *)
(* the call's outcome (accepted / configuration-or-lookup error) and, at   *)
(* assert_applies, the class of the result (verdict / error) are compared. *)
(*   new     a fresh builder object h of kind which                        *)
(*   call    h.<m>(args) returned ("ok") or raised a non-assertion error   *)
(*   show    str(architecture) / architecture[layer] as observed           *)
(*   assert  h.assert_applies(arch): pass | fail | error                   *)
(*   entry   get_evaluable_architecture(...) option combination            *)
(***************************************************************************)
EXTENDS Builders, TLC, Json, IOUtils

TraceLog == ndJsonDeserialize(IOEnv.TRACE_FILE)

VARIABLES l, objs      \* objs : handle -> [which, st]
vars == <<l, objs>>

Report(prop, clause, detail) ==
    PrintT("FAIL " \o ToJson([line |-> l, prop |-> prop, clause |-> clause, detail |-> detail]))
Check(ok, prop, clause, detail) == IF ok THEN TRUE ELSE Report(prop, clause, detail)

IsEvent(k) == l <= Len(TraceLog) /\ TraceLog[l].k = k /\ l' = l + 1

PairSet(js)  == {<<p[1], p[2]>> : p \in SeqToSet(js)}
FiltersOf(js) == UNION { IF f.kind \in {"regex", "partial"}
                         THEN {[kind |-> "named", name |-> m] : m \in SeqToSet(f.matches)}
                         ELSE {[kind |-> f.kind, name |-> f.name]} : f \in SeqToSet(js) }
EmptyMatch(js) == \E f \in SeqToSet(js) : f.kind \in {"regex", "partial"} /\ f.matches = <<>>

InitOf(w) == CASE w = "rule" -> RInit [] w = "arch" -> AInit [] w = "lrule" -> LInit [] w = "diag" -> DInit

\* JSON call -> call record of the automaton
CallOf(w, j) ==
    CASE w = "rule" /\ j.m \in ListMethods -> [m |-> j.m, filters |-> FiltersOf(j.filters), nomatch |-> EmptyMatch(j.filters)]
      [] w = "arch" /\ j.m = "layer" -> [m |-> j.m, name |-> j.name]
      [] w = "arch" /\ j.m = "containing_modules" -> [m |-> j.m, names |-> j.names]
      [] w = "arch" /\ j.m = "have_modules_with_names_matching" -> [m |-> j.m, regex |-> j.regex]
      [] w = "lrule" /\ j.m = "are_named" -> [m |-> j.m, layers |-> j.layers, list |-> j.list, defined |-> SeqToSet(j.defined)]
      [] w = "diag" /\ j.m = "from_file" -> [m |-> j.m, file |-> j.file]
      [] OTHER -> [m |-> j.m]
StepFor(w, s, c) == CASE w = "rule" -> RuleStep(s, c) [] w = "arch" -> ArchStep(s, c)
                      [] w = "lrule" -> LRuleStep(s, c) [] w = "diag" -> DiagStep(s, c)

NewStep ==
    /\ IsEvent("new")
    /\ LET j == TraceLog[l]
           \* a LayerRule history comes with the definition of the LayeredArchitecture it will be based on
           rec == [which |-> j.which, st |-> InitOf(j.which), basis |-> IF "basis" \in DOMAIN j THEN j.basis ELSE <<>>] IN
       objs' = IF j.first THEN (j.h :> rec) ELSE (j.h :> rec) @@ objs

CallProp(w, m) == CASE w = "rule" -> "C13"
                    [] w = "arch" -> "C16"
                    [] w = "lrule" -> "C13,C16"
                    [] w = "diag" -> "C13"

CallStep ==
    /\ IsEvent("call")
    /\ LET j == TraceLog[l]
           o == objs[j.h]
           step == StepFor(o.which, o.st, CallOf(o.which, j.c)) IN
       /\ Check(OutOK(step, j.out), CallProp(o.which, j.c.m),
                IF step.out = "error" THEN "call-must-be-rejected" ELSE "call-must-be-accepted", j.c)
       \* a rejected call leaves the object as it was: the next events are judged from the unchanged state
       /\ objs' = [objs EXCEPT ![j.h].st = Apply(o.st, step, j.out)]

ShowStep ==
    /\ IsEvent("show")
    /\ LET j == TraceLog[l]  o == objs[j.h]
           want == ArchShow(o.st)
           got == [i \in DOMAIN j.layers |-> [name |-> j.layers[i].name, items |-> j.layers[i].items]] IN
       /\ Check(got = want, "C16", "definition-differs-from-accepted-calls", [got |-> got, want |-> want])
       /\ Check(ArchWF(o.st), "MACHINERY", "automaton-reached-ill-formed-architecture", j.h)
    /\ UNCHANGED objs

\* C16: an accepted definition lists exactly what was supplied - also after any number of LayerRule builder calls
\* and evaluations that were based on it
BasisStep ==
    /\ IsEvent("basis")
    /\ LET j == TraceLog[l]  o == objs[j.h] IN
       Check(j.layers = o.basis, "C16", "layer-definition-changed-by-layer-rule-call", [got |-> j.layers, want |-> o.basis])
    /\ UNCHANGED objs

AssertStep ==
    /\ IsEvent("assert")
    /\ LET j == TraceLog[l]  o == objs[j.h]
           T == SeqToSet(j.arch.modules)  I == PairSet(j.arch.imports) IN
       CASE o.which = "rule" ->
              /\ Check(RuleMustError(o.st, T) => j.out = "error", "C13", "rule-without-verdict-was-evaluated", j.h)
              /\ Check((~RuleMayError(o.st, T)) => j.out # "error", "C01", "complete-rule-raised-an-error", j.h)
              /\ Check((~RuleMayError(o.st, T) /\ j.out # "error") => (j.out = "pass") \in RuleVerdicts(o.st, T, I),
                       "C01,C15", "verdict-of-built-rule", j.h)
         [] o.which = "lrule" ->
              /\ Check(LRuleMustError(o.st) => j.out = "error", "C13", "layer-rule-without-verdict-was-evaluated", j.h)
              /\ Check((~LRuleMayError(o.st)) => j.out # "error", "C05", "complete-layer-rule-raised-an-error", j.h)
         [] o.which = "diag" ->
              /\ Check(DiagMustError(o.st) => j.out = "error", "C13", "diagram-rule-without-verdict-was-evaluated", j.h)
              /\ Check((~DiagMustError(o.st)) => j.out # "error", "C07", "complete-diagram-rule-raised-an-error", j.h)
         [] OTHER -> Report("MACHINERY", "assert-on-non-rule", j.h)
    /\ UNCHANGED objs

\* entry points: which option combinations are invalid (C13)
EntryInvalid(j) == \/ (j.exclusions /\ j.regex_exclusions)
                   \/ (j.external_exclusions /\ j.regex_external_exclusions)
                   \/ (j.exclude_external /\ (j.external_exclusions \/ j.regex_external_exclusions))
                   \/ ~j.module_inside_root
EntryStep ==
    /\ IsEvent("entry")
    /\ LET j == TraceLog[l] IN
       /\ Check(EntryInvalid(j) => j.out = "error", "C13", "invalid-entry-options-accepted", j)
       /\ Check((~EntryInvalid(j)) => j.out = "ok", "C04", "valid-entry-options-rejected", j)
    /\ UNCHANGED objs

TraceInit == l = 1 /\ objs = <<>>
TraceNext == NewStep \/ CallStep \/ ShowStep \/ BasisStep \/ AssertStep \/ EntryStep
TraceSpec == TraceInit /\ [][TraceNext]_vars
TraceAccepted == TLCGet("stats").diameter - 1 = Len(TraceLog)
=============================================================================
