SPECIFICATION Spec
CONSTANTS
  Alphabet = {"a", "b", ".", "*"}
  MaxP = 5
  MaxS = 4
  EMIT = FALSE
INVARIANT Agree
INVARIANT StarFree
INVARIANT InteriorStarLiteral
INVARIANT StarsWiden
INVARIANT NonVacuous
CHECK_DEADLOCK FALSE
