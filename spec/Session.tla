------------------------------- MODULE Session -------------------------------
(***************************************************************************)
(* The library as one state machine (DESIGN section 1): long-lived objects  *)
(* and the public calls on them.                                            *)
(*                                                                         *)
(*   archs    sequence of architectures (import relations over a fixed      *)
(*            module tree).  Architectures are immutable: Grow makes a NEW  *)
(*            one from an old one plus one import; the old one stays.       *)
(*   objs     rule objects: id -> [fam, cfg, uses].  A rule object is built *)
(*            once (New) and may be applied any number of times to any      *)
(*            architecture (Apply).  fam \in {"rule","layer","diagram"}.     *)
(*   results  observation: the set of <<fam, cfg, architecture, outcome>>    *)
(*            produced so far                                               *)
(*   hist     the call history (for replay on the real code)                *)
(*                                                                         *)
(* C15 in this model: Apply changes no architecture (Pure), leaves the rule  *)
(* object's configuration as it was (ObjectStable - the real object rewrites *)
(* its 'anything' alias in place on first use, which must be unobservable),  *)
(* and its outcome is a function of <<configuration, architecture>> only    *)
(* (Functional): not of the object used, of how often it was used, of what   *)
(* was evaluated before, or of the other architectures around.              *)
(***************************************************************************)
EXTENDS LayerSem, DiagramSem, Sequences, TLC

CONSTANTS T,          \* module tree
          Cand,       \* candidate imports
          RuleCfgs, LayerCfgs, DiagCfgs,   \* catalogues of configurations
          Layers,     \* the layer map the layer rules are based on
          ObjIds, MaxArchs, MaxHist

VARIABLES archs, objs, results, hist
svars == <<archs, objs, results, hist>>

Cfgs(fam) == CASE fam = "rule" -> RuleCfgs [] fam = "layer" -> LayerCfgs [] fam = "diagram" -> DiagCfgs

Eval(fam, cfg, I) ==
    CASE fam = "rule"    -> Outcome(Den(T, cfg.subs \cup cfg.objs), I, cfg)
      [] fam = "layer"   -> LOutcome(T, Layers, I, cfg)
      [] fam = "diagram" -> DOutcome(T, I, cfg.comps, cfg.deps, cfg.only, <<>>)

SInit == archs = <<{}>> /\ objs = <<>> /\ results = {} /\ hist = <<>>

New(o, fam, cfg) ==
    /\ o \notin DOMAIN objs
    /\ objs' = (o :> [fam |-> fam, cfg |-> cfg, uses |-> 0]) @@ objs
    /\ hist' = Append(hist, [op |-> "new", obj |-> o, fam |-> fam, cfg |-> cfg])
    /\ UNCHANGED <<archs, results>>

Apply(o, a) ==
    /\ o \in DOMAIN objs /\ a \in DOMAIN archs
    /\ results' = results \cup {<<objs[o].fam, objs[o].cfg, archs[a], Eval(objs[o].fam, objs[o].cfg, archs[a])>>}
    /\ objs' = [objs EXCEPT ![o].uses = @ + 1]
    /\ hist' = Append(hist, [op |-> "apply", obj |-> o, arch |-> a])
    /\ UNCHANGED archs

Grow(a, e) ==
    /\ a \in DOMAIN archs /\ Len(archs) < MaxArchs /\ e \in Cand \ archs[a]
    /\ archs' = Append(archs, archs[a] \cup {e})
    /\ hist' = Append(hist, [op |-> "grow", arch |-> a, e |-> e])
    /\ UNCHANGED <<objs, results>>

\* one named action per public call (TLC's coverage report then shows that each kind was exercised)
Room    == Len(hist) < MaxHist
DoNew   == Room /\ \E o \in ObjIds, fam \in {"rule", "layer", "diagram"} : \E cfg \in Cfgs(fam) : New(o, fam, cfg)
DoApply == Room /\ \E o \in ObjIds, a \in 1..MaxArchs : Apply(o, a)
DoGrow  == Room /\ \E a \in 1..MaxArchs, e \in Cand : Grow(a, e)
SNext == DoNew \/ DoApply \/ DoGrow
SSpec == SInit /\ [][SNext]_svars

\* C15
Pure         == [][\A a \in DOMAIN archs : archs'[a] = archs[a]]_svars
ObjectStable == [][\A o \in DOMAIN objs : objs'[o].cfg = objs[o].cfg /\ objs'[o].fam = objs[o].fam]_svars
Functional   == \A x, y \in results : (x[1] = y[1] /\ x[2] = y[2] /\ x[3] = y[3]) => x[4] = y[4]
\* re-applying an object gives the outcome a fresh object of the same configuration gives
Reapply      == \A o \in DOMAIN objs : \A a \in DOMAIN archs :
                   (objs[o].uses > 0) => \A x \in results :
                       (x[1] = objs[o].fam /\ x[2] = objs[o].cfg /\ x[3] = archs[a]) => x[4] = Eval(objs[o].fam, objs[o].cfg, archs[a])
=============================================================================
