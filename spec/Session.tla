------------------------------- MODULE Session -------------------------------
(***************************************************************************)
(* The library as one state machine (DESIGN section 1): long-lived objects  *)
(* and the public calls on them.                                            *)
(*                                                                         *)
(*   archs    sequence of architectures (import relations over a fixed      *)
(*            module tree).  Architectures are immutable: Grow makes a NEW  *)
(*            one from an old one plus one import; the old one stays.       *)
(*   objs     rule objects: id -> [fam, cfg, uses].  A rule object is built *)
(*            once (New) and may be applied any number of times to any      *)
(*            architecture (Apply).  fam \in {"rule","layer","diagram"}.     *)
(*   results  observation: the set of <<fam, cfg, architecture, outcome>>    *)
(*            produced so far                                               *)
(*   hist     the call history (for replay on the real code)                *)
(*                                                                         *)
(* C15 in this model: Apply changes no architecture (Pure), leaves the rule  *)
(* object's configuration as it was (ObjectStable - the real object rewrites *)
(* its 'anything' alias in place on first use, which must be unobservable),  *)
(* and its outcome is a function of <<configuration, architecture>> only    *)
(* (Functional): not of the object used, of how often it was used, of what   *)
(* was evaluated before, or of the other architectures around.              *)
(***************************************************************************)
EXTENDS LayerSem, DiagramSem, Labels, Sequences, TLC

CONSTANTS T,          \* module tree
          Cand,       \* candidate imports
          RuleCfgs, LayerCfgs, DiagCfgs,   \* catalogues of configurations
          Layers,     \* the layer map the layer rules are based on
          AliasDoms,  \* catalogue of alias maps for visualize(): sets of aliased module names (the alias of m is an
                      \* opaque token; names outside T are aliases for modules that do not exist)
          QueryCfgs,  \* catalogue of graph questions [q, dep, upon] (the EvaluableArchitecture protocol)
          ObjIds, MaxArchs, MaxHist

VARIABLES archs, objs, results, hist
svars == <<archs, objs, results, hist>>

Cfgs(fam) == CASE fam = "rule" -> RuleCfgs [] fam = "layer" -> LayerCfgs [] fam = "diagram" -> DiagCfgs

\* the three graph questions: per pair (deps) / per dependent (other_from) / per dependent-upon (other_on) the imports
\* found - the sets violation messages are generated from
AsImport(dep, upon)   == [verb |-> "should_not", dir |-> "import",   exc |-> TRUE, any |-> FALSE, subs |-> dep,  objs |-> upon]
AsImported(dep, upon) == [verb |-> "should_not", dir |-> "imported", exc |-> TRUE, any |-> FALSE, subs |-> upon, objs |-> dep]
QueryResult(I, c) ==
    LET D == Den(T, c.dep \cup c.upon) IN
    CASE c.q = "deps"       -> [k \in c.dep \X c.upon |-> EdgeSet(D, I, AsImport(c.dep, c.upon), k[1], k[2])]
      [] c.q = "other_from" -> [k \in c.dep  |-> OtherSet(D, I, AsImport(c.dep, c.upon), k)]
      [] c.q = "other_on"   -> [k \in c.upon |-> OtherSet(D, I, AsImported(c.dep, c.upon), k)]

Eval(fam, cfg, I) ==
    CASE fam = "rule"    -> Outcome(Den(T, cfg.subs \cup cfg.objs), I, cfg)
      [] fam = "layer"   -> LOutcome(T, Layers, I, cfg)
      [] fam = "diagram" -> DOutcome(T, I, cfg.comps, cfg.deps, cfg.only, <<>>)
      [] fam = "viz"     -> LET A == [m \in cfg |-> m] IN            \* visualize(aliases = A): label map, or rejection
                            IF UnknownAliased(T, A) # {} THEN [out |-> "error", unknown |-> UnknownAliased(T, A)]
                            ELSE [out |-> "ok", labels |-> LabelMap(T, A)]
      [] fam = "query"   -> QueryResult(I, cfg)

SInit == archs = <<{}>> /\ objs = <<>> /\ results = {} /\ hist = <<>>

New(o, fam, cfg) ==
    /\ o \notin DOMAIN objs
    /\ objs' = (o :> [fam |-> fam, cfg |-> cfg, uses |-> 0]) @@ objs
    /\ hist' = Append(hist, [op |-> "new", obj |-> o, fam |-> fam, cfg |-> cfg])
    /\ UNCHANGED <<archs, results>>

Apply(o, a) ==
    /\ o \in DOMAIN objs /\ a \in DOMAIN archs
    /\ results' = results \cup {<<objs[o].fam, objs[o].cfg, archs[a], Eval(objs[o].fam, objs[o].cfg, archs[a])>>}
    /\ objs' = [objs EXCEPT ![o].uses = @ + 1]
    /\ hist' = Append(hist, [op |-> "apply", obj |-> o, arch |-> a])
    /\ UNCHANGED archs

\* visualize() and the graph questions are calls on the architecture itself: no rule object is involved
Visualize(a, A) ==
    /\ a \in DOMAIN archs
    /\ results' = results \cup {<<"viz", A, archs[a], Eval("viz", A, archs[a])>>}
    /\ hist' = Append(hist, [op |-> "viz", arch |-> a, aliased |-> A])
    /\ UNCHANGED <<archs, objs>>

Query(a, c) ==
    /\ a \in DOMAIN archs
    /\ results' = results \cup {<<"query", c, archs[a], Eval("query", c, archs[a])>>}
    /\ hist' = Append(hist, [op |-> "query", arch |-> a, cfg |-> c])
    /\ UNCHANGED <<archs, objs>>

Grow(a, e) ==
    /\ a \in DOMAIN archs /\ Len(archs) < MaxArchs /\ e \in Cand \ archs[a]
    /\ archs' = Append(archs, archs[a] \cup {e})
    /\ hist' = Append(hist, [op |-> "grow", arch |-> a, e |-> e])
    /\ UNCHANGED <<objs, results>>

\* one named action per public call (TLC's coverage report then shows that each kind was exercised)
Room    == Len(hist) < MaxHist
DoNew   == Room /\ \E o \in ObjIds, fam \in {"rule", "layer", "diagram"} : \E cfg \in Cfgs(fam) : New(o, fam, cfg)
DoApply == Room /\ \E o \in ObjIds, a \in 1..MaxArchs : Apply(o, a)
DoGrow  == Room /\ \E a \in 1..MaxArchs, e \in Cand : Grow(a, e)
DoViz   == Room /\ \E a \in 1..MaxArchs, A \in AliasDoms : Visualize(a, A)
DoQuery == Room /\ \E a \in 1..MaxArchs, c \in QueryCfgs : Query(a, c)
SNext == DoNew \/ DoApply \/ DoGrow \/ DoViz \/ DoQuery
SSpec == SInit /\ [][SNext]_svars

\* C15
Pure         == [][\A a \in DOMAIN archs : archs'[a] = archs[a]]_svars
ObjectStable == [][\A o \in DOMAIN objs : objs'[o].cfg = objs[o].cfg /\ objs'[o].fam = objs[o].fam]_svars
Functional   == \A x, y \in results : (x[1] = y[1] /\ x[2] = y[2] /\ x[3] = y[3]) => x[4] = y[4]
\* re-applying an object gives the outcome a fresh object of the same configuration gives
Reapply      == \A o \in DOMAIN objs : \A a \in DOMAIN archs :
                   (objs[o].uses > 0) => \A x \in results :
                       (x[1] = objs[o].fam /\ x[2] = objs[o].cfg /\ x[3] = archs[a]) => x[4] = Eval(objs[o].fam, objs[o].cfg, archs[a])

\* Across families: what a rule reports is what the graph questions answer.  The imports a 'should not import'
\* rule lists are the union of get_dependencies over its subject/object pairs; the imports a 'should not import
\* ... except' rule lists are the union of the 'other' question over its subjects - whatever the filters are
\* (related or not), since both sides are stated with the same operators.
RulesReportQueries ==
    \A x, y \in results :
        (x[1] = "rule" /\ y[1] = "query" /\ x[3] = y[3] /\ x[2].verb = "should_not" /\ ~x[2].any
           /\ x[2].subs = (IF x[2].dir = "import" THEN y[2].dep ELSE y[2].upon)
           /\ x[2].objs = (IF x[2].dir = "import" THEN y[2].upon ELSE y[2].dep))
        => /\ (y[2].q = "deps" /\ ~x[2].exc) => x[4].realised = UNION {y[4][k] : k \in DOMAIN y[4]}
           /\ (y[2].q = "other_from" /\ x[2].exc /\ x[2].dir = "import")   => x[4].realised = UNION {y[4][k] : k \in DOMAIN y[4]}
           /\ (y[2].q = "other_on"   /\ x[2].exc /\ x[2].dir = "imported") => x[4].realised = UNION {y[4][k] : k \in DOMAIN y[4]}
\* (vacuity guard, expected to be VIOLATED: some reachable state does pair a rule with the question it is built from)
NoRuleMeetsItsQuery ==
    ~\E x, y \in results :
        /\ x[1] = "rule" /\ y[1] = "query" /\ x[3] = y[3] /\ x[3] # {} /\ x[2].verb = "should_not" /\ ~x[2].any /\ ~x[2].exc
        /\ y[2].q = "deps" /\ x[2].dir = "import" /\ x[2].subs = y[2].dep /\ x[2].objs = y[2].upon /\ x[4].realised # {}
\* visualize: every module labelled exactly once or the call rejected; never anything else
VizTotal == \A x \in results : x[1] = "viz" =>
                \/ x[4].out = "error" /\ x[4].unknown # {} /\ x[4].unknown \cap T = {}
                \/ x[4].out = "ok" /\ DOMAIN x[4].labels = T
=============================================================================
