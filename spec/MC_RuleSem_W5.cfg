SPECIFICATION Spec
CONSTANTS
  World = "W5"
  EMIT = FALSE
INVARIANT TypeOK
INVARIANT TableOK
INVARIANT Duality
INVARIANT Negation
INVARIANT Decomp
INVARIANT AnyAlias
INVARIANT BatchSubjects
INVARIANT BatchObjects
INVARIANT NonVacuous
INVARIANT OutcomeWF
INVARIANT LawsCopyAgrees
PROPERTY Monotone
CHECK_DEADLOCK FALSE
