------------------------------ MODULE RuleSem ------------------------------
(***************************************************************************)
(* Meaning of a module rule (pytestarch.Rule) on an import relation.       *)
(*                                                                         *)
(*   T    set of module names (component sequences), tree-closed            *)
(*   I    set of imports <<importer, importee>>, both in T                  *)
(*   r    rule configuration                                                *)
(*          [verb : {"should","should_only","should_not"},                  *)
(*           dir  : {"import","imported"},  exc : BOOLEAN, any : BOOLEAN,   *)
(*           subs, objs : sets of filters [kind : {"named","sub"}, name]]   *)
(*                                                                         *)
(* Transcribed from query_language/LANGUAGE_DEFINTION.md ("Semantics") and *)
(* docs/features/module_import_checks.md; the operators below are the      *)
(* only statement of rule semantics in /verif - model checking, vector     *)
(* emission and trace validation all use them.                             *)
(***************************************************************************)
EXTENDS Names

Verbs == {"should", "should_only", "should_not"}
Dirs  == {"import", "imported"}

FSet(T, f) == IF f.kind = "named" THEN Desc(T, f.name) ELSE StrictDesc(T, f.name)

\* Denotation of a set of filters in a module tree.  The semantic operators
\* below take D = Den(T, F) instead of T, so that a bounded model can compute
\* the denotation once (TLC caches constant-level definitions).
Den(T, F) == [f \in F |-> FSet(T, f)]

\* subject-side and object-side end point of an import, whatever the direction
From(r, e) == IF r.dir = "import" THEN e[1] ELSE e[2]
To(r, e)   == IF r.dir = "import" THEN e[2] ELSE e[1]

\* "anything" is the documented alias for "except the subject itself"
Norm(r) == IF r.any THEN [r EXCEPT !.objs = r.subs, !.exc = TRUE, !.any = FALSE] ELSE r

EdgeSet(D, I, r, s, o) == {e \in I : From(r, e) \in D[s] /\ To(r, e) \in D[o]}
ObjAll(D, r)           == UNION {D[o] : o \in r.objs}
OtherSet(D, I, r, s)   == {e \in I : /\ From(r, e) \in D[s]
                                     /\ To(r, e) \notin D[s]
                                     /\ To(r, e) \notin ObjAll(D, r)}

\* the four questions of the "Operation Markers" table
ReqEdge(r)     == r.verb \in {"should", "should_only"} /\ ~r.exc      \* edge
ReqOther(r)    == r.verb \in {"should", "should_only"} /\ r.exc       \* any
ForbidEdge(r)  == (r.verb = "should_not" /\ ~r.exc) \/ (r.verb = "should_only" /\ r.exc)   \* neg edge
ForbidOther(r) == (r.verb = "should_not" /\ r.exc) \/ (r.verb = "should_only" /\ ~r.exc)   \* neg any

RealisedN(D, I, r) ==
    (IF ForbidEdge(r)  THEN UNION {UNION {EdgeSet(D, I, r, s, o) : o \in r.objs} : s \in r.subs} ELSE {})
      \cup
    (IF ForbidOther(r) THEN UNION {OtherSet(D, I, r, s) : s \in r.subs} ELSE {})

MissingEdgeN(D, I, r) ==
    IF ReqEdge(r)
    THEN {<<s, {o \in r.objs : EdgeSet(D, I, r, s, o) = {}}>> :
             s \in {s \in r.subs : \E o \in r.objs : EdgeSet(D, I, r, s, o) = {}}}
    ELSE {}

MissingOtherN(D, I, r) ==
    IF ReqOther(r)
    THEN {<<s, r.objs>> : s \in {s \in r.subs : OtherSet(D, I, r, s) = {}}}
    ELSE {}

Realised(D, I, r)     == RealisedN(D, I, Norm(r))
MissingEdge(D, I, r)  == MissingEdgeN(D, I, Norm(r))
MissingOther(D, I, r) == MissingOtherN(D, I, Norm(r))
Pass(D, I, r) == Realised(D, I, r) = {} /\ MissingEdge(D, I, r) = {} /\ MissingOther(D, I, r) = {}

Outcome(D, I, r) == [pass     |-> Pass(D, I, r),
                     realised |-> Realised(D, I, r),
                     medge    |-> MissingEdge(D, I, r),
                     mother   |-> MissingOther(D, I, r)]

(***************************************************************************)
(* Domain on which the documentation fixes the answer.                      *)
(***************************************************************************)
FilterNames(r) == {f.name : f \in r.subs \cup r.objs}
NamesKnown(T, r) == FilterNames(r) \subseteq T

PairwiseUnrelated(F) == \A f, g \in F : f # g => ~Related(f.name, g.name)
Strict(r) == /\ PairwiseUnrelated(r.subs)
             /\ r.any \/ ( /\ PairwiseUnrelated(r.objs)
                           /\ \A s \in r.subs, o \in r.objs : ~Related(s.name, o.name) )

\* "Sub modules of P" are P's STRICT descendants: P itself is outside the subject.  An import between a sub module of
\* P and P is therefore an import of (by) "something else" - in both directions.  (Until round 5 this corner was left
\* open: the library counted P as "something else" when P imports one of its sub modules, but not when a sub module
\* imports P.  C01 states the set reading, the be-imported-by search documents it, and the import search was repaired
\* to follow it - DESIGN section 14.)
Allowed(D, I, r) == {Outcome(D, I, r)}

(***************************************************************************)
(* The documentation's table written out literally, one formula per shape, *)
(* for the (M) check that the flag form above is the documented semantics.  *)
(***************************************************************************)
AnyEdge(D, I, r, s)  == OtherSet(D, I, r, s) # {}
Edge(D, I, r, s, o)  == EdgeSet(D, I, r, s, o) # {}
TablePass(D, I, r0) ==
    LET r == Norm(r0) IN
    \A s \in r.subs :
      CASE r.verb = "should"      /\ ~r.exc -> \A o \in r.objs : Edge(D, I, r, s, o)
        [] r.verb = "should_only" /\ ~r.exc -> (\A o \in r.objs : Edge(D, I, r, s, o)) /\ ~AnyEdge(D, I, r, s)
        [] r.verb = "should_not"  /\ ~r.exc -> \A o \in r.objs : ~Edge(D, I, r, s, o)
        [] r.verb = "should"      /\ r.exc  -> AnyEdge(D, I, r, s)
        [] r.verb = "should_only" /\ r.exc  -> AnyEdge(D, I, r, s) /\ \A o \in r.objs : ~Edge(D, I, r, s, o)
        [] r.verb = "should_not"  /\ r.exc  -> ~AnyEdge(D, I, r, s)

(***************************************************************************)
(* Renaming (C14): a rule, and an outcome, under a renaming of components.  *)
(***************************************************************************)
RenFilter(rho, f)  == [f EXCEPT !.name = RenName(rho, f.name)]
RenFilters(rho, F) == {RenFilter(rho, f) : f \in F}
RenRule(rho, r)    == [r EXCEPT !.subs = RenFilters(rho, r.subs), !.objs = RenFilters(rho, r.objs)]
RenMissing(rho, M) == {<<RenFilter(rho, x[1]), RenFilters(rho, x[2])>> : x \in M}
RenOutcome(rho, o) == [pass |-> o.pass, realised |-> RenEdges(rho, o.realised),
                       medge |-> RenMissing(rho, o.medge), mother |-> RenMissing(rho, o.mother)]

(***************************************************************************)
(* Rule algebra (C12): partner rules.                                       *)
(***************************************************************************)
OtherDir(d) == IF d = "import" THEN "imported" ELSE "import"
Dual(r)     == [r EXCEPT !.dir = OtherDir(r.dir), !.subs = r.objs, !.objs = r.subs]
WithVerb(r, v, x) == [r EXCEPT !.verb = v, !.exc = x]
=============================================================================
