SPECIFICATION Spec
CONSTANTS
  World = "W6"
  EMIT = TRUE
INVARIANT EmitState
CHECK_DEADLOCK FALSE
