----------------------------- MODULE Trace_Labels -----------------------------
(***************************************************************************)
(* Trace specification for visualize() - C17, label part of C14, C15.       *)
(*   arch   architecture as observed                                         *)
(*   viz    one call visualize(aliases=..., spacing=..., **kw), observed at  *)
(*          the call into the (intercepted) drawing backend                  *)
(*   law    rename: the same abstract call under two component renamings     *)
(* The alias decision (which aliased module heads the label of m) is made   *)
(* here with Labels!LabelSource; the text of <<source, rest>> comes from the *)
(* harness's render table (alias text "." remaining components).             *)
(***************************************************************************)
EXTENDS Labels, TLC, Json, IOUtils

TraceLog == ndJsonDeserialize(IOEnv.TRACE_FILE)
VARIABLES l, archs, results
vars == <<l, archs, results>>

Report(prop, clause, detail) ==
    PrintT("FAIL " \o ToJson([line |-> l, prop |-> prop, clause |-> clause, detail |-> detail]))
IsEvent(k) == l <= Len(TraceLog) /\ TraceLog[l].k = k /\ l' = l + 1
PairSet(js) == {<<p[1], p[2]>> : p \in SeqToSet(js)}
ArchOf(j)   == [modules |-> SeqToSet(j.modules), imports |-> PairSet(j.imports)]

ArchStep ==
    /\ IsEvent("arch")
    /\ LET j == TraceLog[l] IN
       /\ archs' = IF j.first THEN (j.a :> ArchOf(j)) ELSE (j.a :> ArchOf(j)) @@ archs
       /\ results' = IF j.first THEN <<>> ELSE results

AliasMap(js) == [m \in {js[i].mod : i \in DOMAIN js} |-> js[CHOOSE i \in DOMAIN js : js[i].mod = m].text]
\* sources (aliased modules, or NoAlias) whose rendering equals the text observed for module m
Which(j, m, text) == {e.src : e \in {e \in SeqToSet(j.render) : e.mod = m /\ e.text = text}}
ObsText(j, m) == LET S == {e \in SeqToSet(j.labels) : e.mod = m} IN (CHOOSE e \in S : TRUE).text
\* projection of the observed label map to the abstract level: module -> set of explaining sources
Projection(j, T) == [m \in T \cap {e.mod : e \in SeqToSet(j.labels)} |-> Which(j, m, ObsText(j, m))]

VizFails(j, T) ==
    LET A   == AliasMap(j.aliases)
        unk == UnknownAliased(T, A)
        labelled == {e.mod : e \in SeqToSet(j.labels)}
        kwOK == SeqToSet(j.kw_out) = SeqToSet(j.kw_in)
    IN
    IF ~j.with_aliases
    THEN (IF j.out = "ok" THEN {} ELSE {<<"C17", "plain-visualize-raised-error">>})
         \cup (IF j.out = "ok" /\ ~kwOK THEN {<<"C17", "options-not-passed-through-unchanged">>} ELSE {})
         \cup (IF j.out = "ok" /\ j.labels_given THEN {<<"C17", "labels-without-aliases">>} ELSE {})
    ELSE IF unk # {}
    THEN (IF j.out = "error" THEN {} ELSE {<<"C17", "alias-for-unknown-module-must-be-rejected">>})
         \cup (IF j.out = "error" /\ SeqToSet(j.err_names) \cap unk = {}
               THEN {<<"C17", "error-does-not-name-the-unknown-module">>} ELSE {})
    ELSE IF j.out # "ok" THEN {<<"C17", "valid-aliases-raised-error">>}
    ELSE (IF j.drawn = 1 THEN {} ELSE {<<"C17", "backend-not-called-exactly-once">>})
         \cup (IF SeqToSet(j.drawn_nodes) = T THEN {} ELSE {<<"C17", "backend-drew-other-nodes">>})
         \cup (IF labelled = T /\ Len(j.labels) = Cardinality(T) THEN {}
               ELSE {<<"C17", "every-module-labelled-exactly-once">>})
         \cup (IF \A m \in T \cap labelled : LabelSource(A, m) \in Which(j, m, ObsText(j, m)) THEN {}
               ELSE IF \E m \in T \cap labelled : \E s \in Which(j, m, ObsText(j, m)) : s # NoAlias /\ ~Anc(s, m)
                    THEN {<<"C14,C17", "label-taken-from-a-module-that-is-not-an-ancestor">>}
                    ELSE {<<"C17", "label-of-module">>})
         \cup (IF kwOK THEN {} ELSE {<<"C17", "options-not-passed-through-unchanged">>})
         \cup (IF j.spacing_given => (j.pos_from_layout /\ j.layout_k_is_spacing) THEN {}
               ELSE {<<"C17", "spacing-option">>})

VizStep ==
    /\ IsEvent("viz")
    /\ LET j == TraceLog[l]  a == archs[j.a]
           rec == [aliases |-> {e.mod : e \in SeqToSet(j.aliases)}, out |-> j.out,
                   proj |-> IF j.out = "ok" /\ j.with_aliases THEN Projection(j, a.modules) ELSE <<>>] IN
       /\ \A f \in VizFails(j, a.modules) : Report(f[1], f[2], j.rid)
       /\ IF j.same THEN TRUE ELSE Report("C15", "architecture-changed-by-visualize", j.rid)
       \* session replays (Session.tla, Visualize) repeat the call on a freshly built architecture with the same imports
       /\ IF "fresh_same" \in DOMAIN j /\ ~j.fresh_same
          THEN Report("C15", "labels-depend-on-history-or-on-the-architecture-object", j.rid) ELSE TRUE
       /\ results' = IF j.keep THEN (<<j.a, j.rid>> :> rec) @@ results ELSE results
    /\ UNCHANGED archs

LawFails(j) ==
    LET R == [i \in DOMAIN j.rids |-> results[<<j.as[i], j.rids[i]>>]]
        A(i) == archs[j.as[i]]
    IN
    CASE j.law \in {"rename", "same"} ->
            (IF R[1].aliases = R[2].aliases THEN {} ELSE {<<"MACHINERY", "viz-law-binding">>})
            \cup (IF A(1) = A(2) THEN {} ELSE IF j.law = "rename"
                     THEN {<<"C14", "renaming-changes-the-architecture-built-from-the-same-modules-and-imports">>}
                     ELSE {<<"MACHINERY", "viz-law-binding">>})
            \cup (IF R[1].out = R[2].out /\ R[1].proj = R[2].proj THEN {}
                  ELSE IF j.law = "rename" THEN {<<"C14", "renaming-changes-labels">>}
                       ELSE {<<"C15", "same-visualize-call-differs">>})
      [] OTHER -> {<<"MACHINERY", "unknown-law">>}

LawStep ==
    /\ IsEvent("law")
    /\ LET j == TraceLog[l] IN \A f \in LawFails(j) : Report(f[1], f[2], j.rids)
    /\ UNCHANGED <<archs, results>>

TraceInit == l = 1 /\ archs = <<>> /\ results = <<>>
TraceNext == ArchStep \/ VizStep \/ LawStep
TraceSpec == TraceInit /\ [][TraceNext]_vars
TraceAccepted == TLCGet("stats").diameter - 1 = Len(TraceLog)
=============================================================================
