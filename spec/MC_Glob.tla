------------------------------- MODULE MC_Glob -------------------------------
(***************************************************************************)
(* Bounded model for the glob semantics: every pattern over the alphabet up *)
(* to MaxP characters (built one character at a time) against every subject *)
(* up to MaxS characters.  (M) GlobMatch equals its statement by            *)
(* decomposition, star-free patterns match exactly themselves, stars only   *)
(* widen; (R) with EMIT the match set of every pattern is printed and the   *)
(* harness compares it with re.match(convert_partial_match_to_regex(p), s). *)
(***************************************************************************)
EXTENDS Glob, TLC, Json, FiniteSets

CONSTANTS Alphabet, MaxP, MaxS, EMIT

VARIABLE p
vars == <<p>>
Init == p = <<>>
Next == Len(p) < MaxP /\ \E c \in Alphabet : p' = Append(p, c)
Spec == Init /\ [][Next]_vars

Subjects == UNION {[1..n -> Alphabet] : n \in 0..MaxS}

Agree == \A s \in Subjects : GlobMatch(p, s) = GlobMatchByDecomposition(p, s)
StarFree == (\A i \in DOMAIN p : p[i] # Star) => \A s \in Subjects : GlobMatch(p, s) = (s = p)
\* only the two end stars are special: an interior star is a literal character
InteriorStarLiteral == \A s \in Subjects : GlobMatch(p, s) =>
                          \A i \in 2..(Len(p) - 1) : p[i] = Star => \E k \in DOMAIN s : s[k] = Star
StarsWiden == \A s \in Subjects :
                 /\ (GlobMatch(p, s) /\ (Len(p) = 0 \/ p[1] # Star)) => GlobMatch(<<Star>> \o p, s)
                 /\ (GlobMatch(p, s) /\ (Len(p) = 0 \/ p[Len(p)] # Star)) => GlobMatch(Append(p, Star), s)
NonVacuous == (p = <<>>) => (\E s \in Subjects : GlobMatch(p, s)) /\ (\E s \in Subjects : ~GlobMatch(p, s))

Str(s) == FoldLeft(LAMBDA acc, c : acc \o c, "", s)
EmitPattern == EMIT => PrintT("GLOB " \o ToJson([p |-> Str(p), m |-> SetToSeq({Str(s) : s \in {s \in Subjects : GlobMatch(p, s)}})]))
=============================================================================
