------------------------------- MODULE MC_Scan -------------------------------
(***************************************************************************)
(* Bounded model of "a project that grows on disk and is scanned".          *)
(* Actions: MkDir, MkFile, AddStmt (at most MaxSteps of them) over a small  *)
(* universe whose sibling names are string prefixes of one another          *)
(* (a / ab).  In every reachable project the laws the properties state      *)
(* between scans are invariants of the specification:                       *)
(*   C04  scan(sub) = scan(root) restricted to the sub tree                 *)
(*   C08  scan with an entry excluded = scan without it minus that sub tree *)
(*   C09  quotient preserves the verdict of every strict rule above limit   *)
(*   C10  the internal part does not depend on the external options         *)
(*   C02  adding a statement adds exactly the edges it names, wherever it   *)
(*        stands                                                            *)
(* With EMIT every distinct project is printed for replay on the real code. *)
(***************************************************************************)
EXTENDS Scan, RuleSem, TLC, Json

CONSTANTS MaxSteps, EMIT

R == <<"r">>
DirU  == {R, <<"r","a">>, <<"r","ab">>, <<"r","a","a">>}
FileU == {<<"r","m">>, <<"r","a","m">>, <<"r","a","__init__">>, <<"r","ab","m">>, <<"r","a","a","m">>, <<"r","a","a","ab">>}
S(f, form, lv, mod, names) == [file |-> f, form |-> form, level |-> lv, module |-> mod, names |-> names, pos |-> <<>>, lay |-> "line"]
StmtU == { S(<<"r","a","m">>, "import", 0, <<"r","ab","m">>, <<>>),
           S(<<"r","a","m">>, "from", 0, <<"r","ab">>, <<"m">>),
           S(<<"r","a","m">>, "from", 1, <<>>, <<"a">>),
           S(<<"r","a","m">>, "from", 2, <<"ab">>, <<"m", "helper">>),
           S(<<"r","a","m">>, "import", 0, <<"xlib","sub">>, <<>>),
           S(<<"r","a","a","m">>, "from", 2, <<>>, <<"m">>),
           S(<<"r","a","a","m">>, "import", 0, <<"a","a","ab">>, <<>>),      \* written relative to module_path's parent
           S(<<"r","a","a","m">>, "from", 0, <<"r","a","a">>, <<"ab">>),
           S(<<"r","ab","m">>, "from", 0, <<"r">>, <<"a">>),
           S(<<"r","m">>, "import", 0, <<"r","a","a","m">>, <<>>),
           S(<<"r","m">>, "from", 0, <<"abx">>, <<"y">>) }

VARIABLES dirs, files, stmts, steps
vars == <<dirs, files, stmts, steps>>
P == [dirs |-> dirs, files |-> {[name |-> f, py |-> TRUE] : f \in files}, stmts |-> stmts]

Init == dirs = {R} /\ files = {} /\ stmts = {} /\ steps = 0
MkDir(d)   == d \notin dirs /\ SubSeq(d, 1, Len(d) - 1) \in dirs /\ dirs' = dirs \cup {d} /\ UNCHANGED <<files, stmts>>
MkFile(f)  == f \notin files /\ SubSeq(f, 1, Len(f) - 1) \in dirs /\ files' = files \cup {f} /\ UNCHANGED <<dirs, stmts>>
\* (a statement may be written before what it names exists: an import of a name inside the root package that is no
\* module - a dangling import - contributes no module and no import, under any option)
AddStmt(s) == s \notin stmts /\ s.file \in files /\ stmts' = stmts \cup {s} /\ UNCHANGED <<dirs, files>>
\* one named action per kind of step, so that TLC's coverage report shows each of them was taken (vacuity guard)
Tick       == steps < MaxSteps /\ steps' = steps + 1
DoMkDir    == Tick /\ \E d \in DirU \ {R} : MkDir(d)
DoMkFile   == Tick /\ \E f \in FileU : MkFile(f)
DoAddStmt  == Tick /\ \E s \in StmtU : AddStmt(s)
Next == DoMkDir \/ DoMkFile \/ DoAddStmt
Spec == Init /\ [][Next]_vars

Cfg(mp, ex, lim, ext) == [mpath |-> mp, excluded |-> ex, limit |-> lim, ext |-> ext, extexcl |-> {}]
Arch(c) == [modules |-> InternalMods(P, c), imports |-> MustImports(P, c)]

WF == ProjectWF(P)

\* C04
RestrictLaw == \A d \in dirs :
    LET c0 == Cfg(R, {}, 0, FALSE)  c1 == Cfg(d, {}, 0, FALSE) IN
    (\A s \in StmtsOf(P, c1) : s.level # 0 \/ Adjust(P, c1, s.module) = s.module)
       => /\ Arch(c1).modules = RestrictArch(Arch(c0), d).modules
          /\ Arch(c1).imports = RestrictArch(Arch(c0), d).imports
\* names written relative to module_path's parent resolve in the sub scan (and only there)
ParentRelative == \A d \in dirs \ {R} : \A s \in StmtsOf(P, Cfg(d, {}, 0, FALSE)) :
    (s.form = "import" /\ AbsPrefix(P, Cfg(d, {}, 0, FALSE)) \o s.module \in Scanned(P, Cfg(d, {}, 0, FALSE)))
       => <<s.file, AbsPrefix(P, Cfg(d, {}, 0, FALSE)) \o s.module>> \in MayImports(P, Cfg(d, {}, 0, FALSE))

\* C08: excluding one entry x removes exactly the names at or below x (everything, if x is module_path itself)
ExclusionLaw == \A x \in Entries(P) :
    LET c0 == Cfg(R, {}, 0, FALSE)  c1 == Cfg(R, {x}, 0, FALSE)
        gone == {m \in Arch(c0).modules : Anc(x, m)} IN
    /\ Arch(c1).modules = (IF x = R THEN {} ELSE Arch(c0).modules \ gone)
    /\ {e \in Arch(c0).imports : e[1] \in Arch(c1).modules /\ e[2] \in Arch(c1).modules} \subseteq MayImports(P, c1)
    /\ Arch(c1).imports \subseteq {e \in MayImports(P, c0) : ~Anc(x, e[1]) /\ ~Anc(x, e[2])}

\* C09: verdict preservation for strict rules whose names lie above the limit
Filters(T) == {[kind |-> k, name |-> m] : k \in {"named", "sub"}, m \in T}
Shape == [verb : Verbs, dir : Dirs, exc : BOOLEAN]
AboveLimit(r, n) == \A f \in r.subs \cup r.objs : IF f.kind = "named" THEN Len(f.name) <= n ELSE Len(f.name) < n
QuotientVerdict == \A k \in 0..2 :          \* level_limit k, encoded as k + 1
    LET c == Cfg(R, {}, k + 1, FALSE)
        A == Arch(Cfg(R, {}, 0, FALSE))
        Q == Quotient(A, KeepLen(c))
        FA == Filters(Q.modules) IN
    \A sh \in Shape, s \in FA, o \in FA :
        LET r == [verb |-> sh.verb, dir |-> sh.dir, exc |-> sh.exc, any |-> FALSE, subs |-> {s}, objs |-> {o}] IN
        (Strict(r) /\ AboveLimit(r, KeepLen(c)))
           => Pass(Den(A.modules, {s, o}), A.imports, r) = Pass(Den(Q.modules, {s, o}), Q.imports, r)
\* ... and the restriction to rules above the limit is needed (vacuity guard, expected to be violated somewhere):
QuotientVerdictUnrestricted == \A k \in 0..2 :
    LET c == Cfg(R, {}, k + 1, FALSE)
        A == Arch(Cfg(R, {}, 0, FALSE))
        Q == Quotient(A, KeepLen(c))
        FA == Filters(A.modules) IN
    \A s \in FA, o \in FA :
        LET r == [verb |-> "should_not", dir |-> "import", exc |-> FALSE, any |-> FALSE, subs |-> {s}, objs |-> {o}] IN
        (Strict(r) /\ {s.name, o.name} \subseteq Q.modules) =>
            Pass(Den(A.modules, {s, o}), A.imports, r) = Pass(Den(Q.modules, {s, o}), Q.imports, r)

\* C10
ExternalLaw == \A d \in dirs :
    LET c0 == Cfg(d, {}, 0, FALSE)  c1 == Cfg(d, {}, 0, TRUE) IN
    /\ InternalMods(P, c0) = InternalMods(P, c1) /\ MustImports(P, c0) = MustImports(P, c1)
    /\ \A m \in ExternalMods(P, c1) \ InternalMods(P, c1) : ~Anc(d, m)
    /\ \A e \in ExternalImports(P, c1) : e[1] \in VisibleFiles(P, c1) /\ e[2] \in ExternalMods(P, c1)

\* C02: a new statement adds exactly the edges it names - and what it names does not depend on where it stands
StatementLaw == [][\A s \in stmts' \ stmts :
                     LET c == Cfg(R, {}, 0, FALSE)
                         P2 == [dirs |-> dirs', files |-> {[name |-> f, py |-> TRUE] : f \in files'}, stmts |-> stmts']
                         new == {<<s.file, t>> : t \in {t \in Named(P2, c, s).must : t \in InternalMods(P2, c) /\ ~Anc(t, s.file)}} IN
                     /\ MustImports(P2, c) = MustImports(P, c) \cup new
                     /\ \A q \in {<<"If.orelse">>, <<"Try.handlers", "FunctionDef.body">>} :
                           \A y \in {"line", "semicolon", "inline", "paren", "backslash"} :
                              Named(P2, c, [s EXCEPT !.pos = q, !.lay = y]) = Named(P2, c, s)]_vars

NonVacuous == (steps = MaxSteps) => TRUE
EmitProject == EMIT => PrintT("PROJ " \o ToJson([dirs |-> SetToSeq(dirs), files |-> SetToSeq(files), stmts |-> SetToSeq(stmts)]))
View == <<dirs, files, stmts>>
=============================================================================
