SPECIFICATION TraceSpec
POSTCONDITION TraceAccepted
CHECK_DEADLOCK FALSE
