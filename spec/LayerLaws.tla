------------------------------ MODULE LayerLaws ------------------------------
(***************************************************************************)
(* The structural laws of C05 for ARBITRARY layer denotations, import       *)
(* relations and layer rules - proved with the TLA+ proof system, not only  *)
(* model-checked on the bounded worlds of MC_LayerSem:                      *)
(*                                                                         *)
(*   SameLayerNeverCounts   an import between two modules of one layer      *)
(*                          changes neither the accesses nor the "something *)
(*                          else" imports of any layer rule                 *)
(*   UnmentionedIsNoLayer   the sets a rule is judged on depend only on the *)
(*                          layers the rule mentions                        *)
(*   NoLayerIsSomethingElse an import from the subject layer to a module    *)
(*                          that is in none of the mentioned layers is an    *)
(*                          import of "something else"                      *)
(*   LayerMonotone          more imports: more accesses, more "something    *)
(*                          else" imports                                   *)
(*                                                                         *)
(* S is the denotation of the layers: S[n] = the set of modules of layer n  *)
(* (LayerSem!LSet: the union of the sub trees of its listed modules).  The  *)
(* operators are a textual copy of the ones in LayerSem.tla with S[n] in    *)
(* place of LSet(T, L, n) (tlapm does not ship the community modules that   *)
(* LayerSem extends); MC_LayerSem!LayerLawsCopyAgrees binds the copy to the *)
(* original with TLC on every rule and import relation of the bounded model.*)
(***************************************************************************)

From(r, e) == IF r.dir = "import" THEN e[1] ELSE e[2]
To(r, e)   == IF r.dir = "import" THEN e[2] ELSE e[1]

ObjAll(S, r) == UNION {S[y] : y \in r.objs}
Access(S, I, r, y) == {e \in I : /\ From(r, e) \in S[r.sub]
                                 /\ To(r, e) \in S[y]
                                 /\ To(r, e) \notin S[r.sub]}
Other(S, I, r) == {e \in I : /\ From(r, e) \in S[r.sub]
                             /\ To(r, e) \notin S[r.sub]
                             /\ To(r, e) \notin ObjAll(S, r)}

\* layers are pairwise disjoint (C05's domain: modules of different layers are unrelated)
Disjoint(S) == \A n, m \in DOMAIN S : n # m => S[n] \cap S[m] = {}
InLayer(S, n, x) == n \in DOMAIN S /\ x \in S[n]

(* ------------------------------------------------------------------------ *)
THEOREM SameLayerNeverCounts ==
    ASSUME NEW S, NEW I, NEW r, NEW e, NEW n,
           Disjoint(S), r.sub \in DOMAIN S,
           InLayer(S, n, e[1]), InLayer(S, n, e[2])          \* both ends in one layer
    PROVE  /\ \A y : Access(S, I \cup {e}, r, y) = Access(S, I, r, y)
           /\ Other(S, I \cup {e}, r) = Other(S, I, r)
<1>1. ~(From(r, e) \in S[r.sub] /\ To(r, e) \notin S[r.sub])
   <2>1. CASE n = r.sub
         BY <2>1 DEF InLayer, From, To
   <2>2. CASE n # r.sub
      <3>1. S[n] \cap S[r.sub] = {} BY <2>2 DEF Disjoint, InLayer
      <3>2. From(r, e) \in S[n] BY DEF InLayer, From
      <3> QED BY <3>1, <3>2
   <2> QED BY <2>1, <2>2
<1>2. \A y : Access(S, I \cup {e}, r, y) = Access(S, I, r, y)
      BY <1>1 DEF Access
<1>3. Other(S, I \cup {e}, r) = Other(S, I, r)
      BY <1>1 DEF Other
<1> QED BY <1>2, <1>3

THEOREM UnmentionedIsNoLayer ==
    ASSUME NEW S, NEW S2, NEW I, NEW r,
           S2[r.sub] = S[r.sub], \A y \in r.objs : S2[y] = S[y]      \* the two denotations agree on the mentioned layers
    PROVE  /\ \A y \in r.objs : Access(S2, I, r, y) = Access(S, I, r, y)
           /\ Other(S2, I, r) = Other(S, I, r)
<1>1. ObjAll(S2, r) = ObjAll(S, r) BY DEF ObjAll
<1>2. \A y \in r.objs : Access(S2, I, r, y) = Access(S, I, r, y) BY DEF Access
<1>3. Other(S2, I, r) = Other(S, I, r) BY <1>1 DEF Other
<1> QED BY <1>2, <1>3

THEOREM NoLayerIsSomethingElse ==
    ASSUME NEW S, NEW I, NEW r, NEW e \in I,
           From(r, e) \in S[r.sub], To(r, e) \notin S[r.sub], \A y \in r.objs : To(r, e) \notin S[y]
    PROVE  e \in Other(S, I, r) /\ \A y \in r.objs : e \notin Access(S, I, r, y)
BY DEF Other, Access, ObjAll

THEOREM AccessAndOtherPartition ==      \* an import that leaves the subject layer is an access to an object layer or "other"
    ASSUME NEW S, NEW I, NEW r, NEW e \in I, From(r, e) \in S[r.sub], To(r, e) \notin S[r.sub]
    PROVE  (e \in Other(S, I, r)) <=> ~(\E y \in r.objs : e \in Access(S, I, r, y))
BY DEF Other, Access, ObjAll

THEOREM LayerMonotone ==
    ASSUME NEW S, NEW I, NEW J, I \subseteq J, NEW r
    PROVE  /\ \A y : Access(S, I, r, y) \subseteq Access(S, J, r, y)
           /\ Other(S, I, r) \subseteq Other(S, J, r)
BY DEF Access, Other

(* ------------------------------------------------------------------------ *)
(* The outcome of a layer rule (copy of LayerSem!LRealisedN ... LOutcome for *)
(* a normalised rule) and the laws at the level of outcomes and verdicts.    *)
ReqEdge(r)     == r.verb \in {"should", "should_only"} /\ ~r.exc
ReqOther(r)    == r.verb \in {"should", "should_only"} /\ r.exc
ForbidEdge(r)  == (r.verb = "should_not" /\ ~r.exc) \/ (r.verb = "should_only" /\ r.exc)
ForbidOther(r) == (r.verb = "should_not" /\ r.exc) \/ (r.verb = "should_only" /\ ~r.exc)

RealisedN(S, I, r) ==
    (IF ForbidEdge(r)  THEN UNION {Access(S, I, r, y) : y \in r.objs} ELSE {})
    \cup (IF ForbidOther(r) THEN Other(S, I, r) ELSE {})
MissingEdgeN(S, I, r) ==
    IF ReqEdge(r) /\ (\E y \in r.objs : Access(S, I, r, y) = {})
    THEN {<<r.sub, {y \in r.objs : Access(S, I, r, y) = {}}>>} ELSE {}
MissingOtherN(S, I, r) ==
    IF ReqOther(r) /\ Other(S, I, r) = {} THEN {<<r.sub, r.objs>>} ELSE {}
OutcomeN(S, I, r) ==
    [pass     |-> RealisedN(S, I, r) = {} /\ MissingEdgeN(S, I, r) = {} /\ MissingOtherN(S, I, r) = {},
     realised |-> RealisedN(S, I, r),
     medge    |-> MissingEdgeN(S, I, r),
     mother   |-> MissingOtherN(S, I, r)]
PassN(S, I, r) == OutcomeN(S, I, r).pass

IsLRule(r) == /\ r = [verb |-> r.verb, dir |-> r.dir, exc |-> r.exc, any |-> r.any, sub |-> r.sub, objs |-> r.objs]
              /\ r.verb \in {"should", "should_only", "should_not"}
              /\ r.dir \in {"import", "imported"}
              /\ r.exc \in BOOLEAN

THEOREM OutcomeSameLayer ==         \* C05: imports between modules of the same layer never count
    ASSUME NEW S, NEW I, NEW r, NEW e, NEW n,
           Disjoint(S), r.sub \in DOMAIN S, InLayer(S, n, e[1]), InLayer(S, n, e[2])
    PROVE  OutcomeN(S, I \cup {e}, r) = OutcomeN(S, I, r)
<1>1. (\A y : Access(S, I \cup {e}, r, y) = Access(S, I, r, y)) /\ Other(S, I \cup {e}, r) = Other(S, I, r)
      BY SameLayerNeverCounts
<1>2. RealisedN(S, I \cup {e}, r) = RealisedN(S, I, r) BY <1>1 DEF RealisedN
<1>3. MissingEdgeN(S, I \cup {e}, r) = MissingEdgeN(S, I, r) BY <1>1 DEF MissingEdgeN
<1>4. MissingOtherN(S, I \cup {e}, r) = MissingOtherN(S, I, r) BY <1>1 DEF MissingOtherN
<1> QED BY <1>2, <1>3, <1>4 DEF OutcomeN

THEOREM OutcomeUnmentioned ==       \* C05: layers the rule does not mention are like no layer, however defined
    ASSUME NEW S, NEW S2, NEW I, NEW r, S2[r.sub] = S[r.sub], \A y \in r.objs : S2[y] = S[y]
    PROVE  OutcomeN(S2, I, r) = OutcomeN(S, I, r)
<1>1. (\A y \in r.objs : Access(S2, I, r, y) = Access(S, I, r, y)) /\ Other(S2, I, r) = Other(S, I, r)
      BY UnmentionedIsNoLayer
<1>2. RealisedN(S2, I, r) = RealisedN(S, I, r) BY <1>1 DEF RealisedN
<1>3. MissingEdgeN(S2, I, r) = MissingEdgeN(S, I, r) BY <1>1 DEF MissingEdgeN
<1>4. MissingOtherN(S2, I, r) = MissingOtherN(S, I, r) BY <1>1 DEF MissingOtherN
<1> QED BY <1>2, <1>3, <1>4 DEF OutcomeN

LEMMA PassSpelledOut ==
    ASSUME NEW S, NEW I, NEW r, IsLRule(r)
    PROVE  PassN(S, I, r) <=>
             /\ ForbidEdge(r)  => \A y \in r.objs : Access(S, I, r, y) = {}
             /\ ForbidOther(r) => Other(S, I, r) = {}
             /\ ReqEdge(r)     => \A y \in r.objs : Access(S, I, r, y) # {}
             /\ ReqOther(r)    => Other(S, I, r) # {}
<1>1. (UNION {Access(S, I, r, y) : y \in r.objs} = {}) <=> (\A y \in r.objs : Access(S, I, r, y) = {}) OBVIOUS
<1>2. (RealisedN(S, I, r) = {}) <=> ((ForbidEdge(r) => \A y \in r.objs : Access(S, I, r, y) = {}) /\ (ForbidOther(r) => Other(S, I, r) = {}))
      BY <1>1 DEF RealisedN
<1>3. (MissingEdgeN(S, I, r) = {}) <=> (ReqEdge(r) => \A y \in r.objs : Access(S, I, r, y) # {})
      BY DEF MissingEdgeN
<1>4. (MissingOtherN(S, I, r) = {}) <=> (ReqOther(r) => Other(S, I, r) # {})
      BY DEF MissingOtherN
<1> QED BY <1>2, <1>3, <1>4 DEF PassN, OutcomeN

WithVerb(r, v, x) == [r EXCEPT !.verb = v, !.exc = x]
LEMMA WithVerbSets ==
    ASSUME NEW S, NEW I, NEW r, IsLRule(r), NEW v, NEW x
    PROVE  /\ \A y : Access(S, I, WithVerb(r, v, x), y) = Access(S, I, r, y)
           /\ Other(S, I, WithVerb(r, v, x)) = Other(S, I, r)
           /\ WithVerb(r, v, x).objs = r.objs
<1>1. WithVerb(r, v, x).dir = r.dir /\ WithVerb(r, v, x).sub = r.sub /\ WithVerb(r, v, x).objs = r.objs
      BY DEF WithVerb, IsLRule
<1> QED BY <1>1 DEF Access, Other, ObjAll, From, To

THEOREM LayerDecomposition ==       \* 'should only' = 'should' and 'should not ... except' (and the except twin)
    ASSUME NEW S, NEW I, NEW r, IsLRule(r), r.verb = "should_only"
    PROVE  PassN(S, I, r) <=> (PassN(S, I, WithVerb(r, "should", r.exc)) /\ PassN(S, I, WithVerb(r, "should_not", ~r.exc)))
<1> DEFINE a == WithVerb(r, "should", r.exc)
           b == WithVerb(r, "should_not", ~r.exc)
<1>0. r.exc \in BOOLEAN BY DEF IsLRule
<1>1. IsLRule(a) /\ a.verb = "should" /\ a.exc = r.exc /\ a.objs = r.objs BY <1>0 DEF IsLRule, WithVerb
<1>2. IsLRule(b) /\ b.verb = "should_not" /\ b.exc = (~r.exc) /\ b.objs = r.objs BY <1>0 DEF IsLRule, WithVerb
<1>3. (\A y : Access(S, I, a, y) = Access(S, I, r, y)) /\ Other(S, I, a) = Other(S, I, r) BY WithVerbSets
<1>4. (\A y : Access(S, I, b, y) = Access(S, I, r, y)) /\ Other(S, I, b) = Other(S, I, r) BY WithVerbSets
<1>5. CASE ~r.exc
      BY <1>0, <1>1, <1>2, <1>3, <1>4, <1>5, PassSpelledOut DEF ReqEdge, ReqOther, ForbidEdge, ForbidOther
<1>6. CASE r.exc
      BY <1>0, <1>1, <1>2, <1>3, <1>4, <1>6, PassSpelledOut DEF ReqEdge, ReqOther, ForbidEdge, ForbidOther
<1> QED BY <1>5, <1>6

THEOREM LayerMonotoneShould ==      \* adding imports never breaks a passing 'should' layer rule
    ASSUME NEW S, NEW I, NEW J, I \subseteq J, NEW r, IsLRule(r), r.verb = "should", PassN(S, I, r)
    PROVE  PassN(S, J, r)
<1>1. (\A y : Access(S, I, r, y) \subseteq Access(S, J, r, y)) /\ Other(S, I, r) \subseteq Other(S, J, r) BY LayerMonotone
<1> QED BY <1>1, PassSpelledOut DEF ReqEdge, ReqOther, ForbidEdge, ForbidOther, IsLRule
=============================================================================
