SPECIFICATION Spec
CONSTANTS
  EMIT = TRUE
  Big = TRUE
INVARIANT EmitState
CHECK_DEADLOCK FALSE
