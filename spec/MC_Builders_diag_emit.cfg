SPECIFICATION Spec
CONSTANTS
  Which = "diag"
  MaxLen = 4
  EMIT = TRUE
INVARIANT EmitHist
CHECK_DEADLOCK FALSE
