---------------------------- MODULE Trace_Graph ----------------------------
(***************************************************************************)
(* Trace specification for the construction of an architecture from a      *)
(* module list and an import list (Graph.tla): every recorded build of the *)
(* real NetworkxGraph - its nodes, its hierarchy edges, its import edges - *)
(* is compared with the order-free result Graph!ExpNodes / NameTreeOf /    *)
(* ExpImports; builds of the same input in another listing order must      *)
(* agree with each other.                                                  *)
(*   build  {"first": bool (first build of this input), "mods", "imps",     *)
(*           "keep" (0 = no level limit, k + 1 = level_limit k),            *)
(*           "nodes", "hier", "imports"}                                    *)
(***************************************************************************)
EXTENDS Names, FiniteSetsExt, TLC, Json, IOUtils

TraceLog == ndJsonDeserialize(IOEnv.TRACE_FILE)
VARIABLES l, last
vars == <<l, last>>

\* Graph.tla's order-free statement (INSTANCE with the constants of no interest here bound to dummies)
G == INSTANCE Graph WITH Universe <- {}, CandImps <- {}, Keeps <- {0}, MaxMods <- 0, MaxImps <- 0, ParentsFirst <- TRUE,
                         mods <- {}, imps <- {}, keep <- 0, todoM <- {}, todoI <- {}, nodes <- {}, edges <- <<>>

Report(prop, clause, detail) ==
    PrintT("FAIL " \o ToJson([line |-> l, prop |-> prop, clause |-> clause, detail |-> detail]))
PairSet(js) == {<<x[1], x[2]>> : x \in SeqToSet(js)}

BuildFails(j) ==
    LET M == SeqToSet(j.mods)  I == PairSet(j.imps)  k == j.keep
        N == SeqToSet(j.nodes)  H == PairSet(j.hier)  E == PairSet(j.imports)
        lim == k # 0
    IN (IF N = G!ExpNodes(M, k) THEN {}
        ELSE {<<IF lim THEN "C09" ELSE "C04", "built-nodes-are-not-the-listed-modules-and-their-ancestors",
                [lost |-> G!ExpNodes(M, k) \ N, extra |-> N \ G!ExpNodes(M, k)]>>})
       \cup (IF H = G!NameTreeOf(N) THEN {}
             ELSE {<<IF lim THEN "C09" ELSE "C04", "built-hierarchy-is-not-the-parent-child-relation-of-the-names",
                     [lost |-> G!NameTreeOf(N) \ H, extra |-> H \ G!NameTreeOf(N)]>>})
       \cup (IF E = G!ExpImports(M, I, k) THEN {}
             ELSE {<<IF lim THEN "C09" ELSE "C02", "built-imports-are-not-the-listed-imports-between-known-modules",
                     [lost |-> G!ExpImports(M, I, k) \ E, extra |-> E \ G!ExpImports(M, I, k)]>>})
       \* C09 at construction level: a limited build is the quotient of the unlimited one
       \cup (IF ~lim \/ N = {Trunc(m, k) : m \in G!ExpNodes(M, 0)} THEN {}
             ELSE {<<"C09", "limited-build-nodes-are-not-the-truncated-names", N>>})

BuildStep ==
    /\ l <= Len(TraceLog) /\ TraceLog[l].k = "build" /\ l' = l + 1
    /\ LET j == TraceLog[l]
           obs == [nodes |-> SeqToSet(j.nodes), hier |-> PairSet(j.hier), imports |-> PairSet(j.imports)] IN
       /\ \A f \in BuildFails(j) : Report(f[1], f[2], f[3])
       \* the same input listed in another order: the same architecture (C15)
       /\ IF j.first \/ last = obs THEN TRUE
          ELSE Report("C15", "architecture-depends-on-the-listing-order-of-modules-or-imports", [before |-> last, now |-> obs])
       /\ last' = obs

TraceInit == l = 1 /\ last = <<>>
TraceNext == BuildStep
TraceSpec == TraceInit /\ [][TraceNext]_vars
TraceAccepted == TLCGet("stats").diameter - 1 = Len(TraceLog)
=============================================================================
