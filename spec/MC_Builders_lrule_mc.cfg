SPECIFICATION Spec
CONSTANTS
  Which = "lrule"
  MaxLen = 4
  EMIT = FALSE
INVARIANT RuleStateIsHistory
INVARIANT RuleClassTotal
INVARIANT ArchAlwaysWF
INVARIANT ArchIsHistory
INVARIANT LRuleOneSubject
PROPERTY RejectedUnchanged
CHECK_DEADLOCK FALSE
