---------------------------- MODULE Trace_Diagram ----------------------------
(***************************************************************************)
(* Trace specification for PlantUML diagrams (C06) and DiagramRule (C07).   *)
(*   parse   PumlParser().parse(file) for a rendered abstract diagram:       *)
(*           observed components and dependor->dependee relation, or error   *)
(*   arch    architecture as observed                                        *)
(*   deval   DiagramRule...assert_applies(arch): verdict and parsed message  *)
(***************************************************************************)
EXTENDS DiagramSem, TLC, Json, IOUtils

TraceLog == ndJsonDeserialize(IOEnv.TRACE_FILE)
VARIABLES l, archs
vars == <<l, archs>>

Report(prop, clause, detail) ==
    PrintT("FAIL " \o ToJson([line |-> l, prop |-> prop, clause |-> clause, detail |-> detail]))
Fails(F, detail) == \A f \in F : Report(f[1], f[2], detail)
IsEvent(k) == l <= Len(TraceLog) /\ TraceLog[l].k = k /\ l' = l + 1
PairSet(js) == {<<p[1], p[2]>> : p \in SeqToSet(js)}
OneFilter(f) == [kind |-> f.kind, name |-> f.name]

ParseFails(j) ==
    LET d == j.lines IN
    IF ~DocumentedDiagram(d) THEN {<<"MACHINERY", "diagram-outside-documented-subset">>}
    ELSE IF j.tagform \notin TagForms THEN {<<"MACHINERY", "unknown-tag-form">>}
    ELSE IF ~WellTagged(j.tagform) THEN (IF j.out = "error" THEN {} ELSE {<<"C06", "missing-tags-must-be-a-parsing-error">>})
    ELSE IF j.out = "error" THEN {<<"C06", "documented-diagram-rejected">>}
    ELSE (IF SeqToSet(j.components) = Components(d) THEN {}
          ELSE IF SeqToSet(j.components) \subseteq Components(d) THEN {<<"C06", "components-lost">>}
          ELSE {<<"C06", "components-differ">>})
         \cup (IF PairSet(j.deps) = Deps(d) THEN {}
               ELSE IF PairSet(j.deps) \subseteq Deps(d) THEN {<<"C06", "arrows-lost">>}
               ELSE {<<"C06", "arrows-differ">>})

ParseStep ==
    /\ IsEvent("parse")
    /\ LET j == TraceLog[l] IN Fails(ParseFails(j), j.text)
    /\ UNCHANGED archs

ArchStep ==
    /\ IsEvent("arch")
    /\ LET j == TraceLog[l]
           a == [modules |-> SeqToSet(j.modules), imports |-> PairSet(j.imports)] IN
       archs' = IF j.first THEN (j.a :> a) ELSE (j.a :> a) @@ archs

DEvalFails(j, T, I) ==
    LET comps == SeqToSet(j.comps)
        deps  == PairSet(j.deps)
        exp   == DOutcome(T, I, comps, deps, j.only, j.base)
        obs   == [pass     |-> j.out = "pass",
                  realised |-> PairSet(j.real),
                  medge    |-> {<<OneFilter(m.sub), {OneFilter(o) : o \in SeqToSet(m.objs)}>> :
                                    m \in {m \in SeqToSet(j.miss) : ~m.other}},
                  mother   |-> {<<OneFilter(m.sub), {OneFilter(o) : o \in SeqToSet(m.objs)}>> :
                                    m \in {m \in SeqToSet(j.miss) : m.other}}]
    IN
    IF \E c \in comps : ModOf(j.base, c) \notin T      \* a component that is no module: never a verdict (C13)
    THEN (IF j.out = "error" THEN {} ELSE {<<"C13", "diagram-with-unknown-component-must-be-an-error">>})
    ELSE IF ~DiagramWF(T, comps, j.base) THEN {<<"MACHINERY", "diagram-rule-outside-domain">>}
    ELSE IF j.out = "error" THEN {<<"C07", "diagram-rule-raised-an-error">>}
    ELSE (IF Conforms(T, I, comps, deps, j.only, j.base) = exp.pass THEN {}
          ELSE {<<"MACHINERY", "conformance-differs-from-generated-rules">>})
         \cup (IF obs.pass = Conforms(T, I, comps, deps, j.only, j.base) THEN {} ELSE {<<"C07", "diagram-verdict">>})
         \cup (IF j.bad = <<>> THEN {} ELSE {<<"C07", "unparsable-line">>})
         \cup (IF obs.pass # exp.pass THEN {} ELSE
                 (IF obs.realised = exp.realised THEN {}
                  ELSE IF obs.realised \subseteq exp.realised THEN {<<"C07", "aggregated-message-lost-import-lines">>}
                  ELSE {<<"C07", "aggregated-message-import-lines">>})
                 \cup (IF obs.medge = exp.medge THEN {}
                       ELSE IF obs.medge \subseteq exp.medge THEN {<<"C07", "aggregated-message-lost-missing-lines">>}
                       ELSE {<<"C07", "aggregated-message-missing-lines">>})
                 \cup (IF obs.mother = {} THEN {} ELSE {<<"C07", "unexpected-line-kind">>}))

DEvalStep ==
    /\ IsEvent("deval")
    /\ LET j == TraceLog[l]  a == archs[j.a] IN
       /\ Fails(DEvalFails(j, a.modules, a.imports), j.rid)
       /\ IF j.same THEN TRUE ELSE Report("C15", "architecture-changed-by-evaluation", j.rid)
       \* session replays (Session.tla) also evaluate the configuration in isolation - fresh architecture, fresh
       \* rule object - and log whether verdict and message were the same
       /\ IF "fresh_same" \in DOMAIN j /\ ~j.fresh_same
          THEN Report("C15", "outcome-depends-on-history-or-object-reuse", j.rid) ELSE TRUE
    /\ UNCHANGED archs

TraceInit == l = 1 /\ archs = <<>>
TraceNext == ParseStep \/ ArchStep \/ DEvalStep
TraceSpec == TraceInit /\ [][TraceNext]_vars
TraceAccepted == TLCGet("stats").diameter - 1 = Len(TraceLog)
=============================================================================
