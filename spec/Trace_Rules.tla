----------------------------- MODULE Trace_Rules -----------------------------
(***************************************************************************)
(* Trace specification for module-rule evaluation (C01 C03 C11 C12 C13 C15).*)
(*                                                                         *)
(* Input: ndjson recorded from the real code (env TRACE_FILE), one event   *)
(* per public call at its return:                                          *)
(*   arch       an architecture was built; modules/imports as observed     *)
(*   addimport  a second architecture = first + one import (C12 monotone)  *)
(*   eval       Rule...assert_applies(arch) returned / raised               *)
(*   law        the driver claims some evaluated rules are partners under  *)
(*              a law of C11/C12; the specification re-derives partnership *)
(*              with its own operators and checks the recorded verdicts    *)
(*                                                                         *)
(* Every step is total: a disagreeing clause prints one FAIL line (with    *)
(* the property it decides) and the trace goes on, so one divergence never *)
(* hides the rest.  Acceptance: all lines consumed and no FAIL line.       *)
(***************************************************************************)
EXTENDS RuleSem, TLC, Json, IOUtils

TraceLog == ndJsonDeserialize(IOEnv.TRACE_FILE)

VARIABLES l,        \* next line to consume
          archs,    \* id -> [modules, imports]
          results   \* <<arch id, rule id>> -> [cfg, out, obs]
vars == <<l, archs, results>>

Report(prop, clause, detail) ==
    PrintT("FAIL " \o ToJson([line |-> l, prop |-> prop, clause |-> clause, detail |-> detail]))

PairSet(js)  == {<<p[1], p[2]>> : p \in SeqToSet(js)}
ArchOf(j)    == [modules |-> SeqToSet(j.modules), imports |-> PairSet(j.imports)]

\* regex / partial-name filters arrive with the match set the harness computed with re.match;
\* their meaning is the list of matched modules as named filters (C11)
FiltersOf(js) == UNION { IF f.kind \in {"regex", "partial"}
                         THEN {[kind |-> "named", name |-> m] : m \in SeqToSet(f.matches)}
                         ELSE {[kind |-> f.kind, name |-> f.name]} : f \in SeqToSet(js) }
EmptyMatch(js) == \E f \in SeqToSet(js) : f.kind \in {"regex", "partial"} /\ f.matches = <<>>
RuleOf(j) == [verb |-> j.verb, dir |-> j.dir, exc |-> j.exc, any |-> j.any,
              subs |-> FiltersOf(j.subs), objs |-> FiltersOf(j.objs)]
OneFilter(f) == [kind |-> f.kind, name |-> f.name]
ObsOf(j) == [pass     |-> j.out = "pass",
             realised |-> PairSet(j.real),
             medge    |-> {<<OneFilter(m.sub), {OneFilter(o) : o \in SeqToSet(m.objs)}>> :
                               m \in {m \in SeqToSet(j.miss) : ~m.other}},
             mother   |-> {<<OneFilter(m.sub), {OneFilter(o) : o \in SeqToSet(m.objs)}>> :
                               m \in {m \in SeqToSet(j.miss) : m.other}}]

IsEvent(k) == l <= Len(TraceLog) /\ TraceLog[l].k = k /\ l' = l + 1

(* ---------------------------------------------------------------- arch *)
ArchStep ==
    /\ IsEvent("arch")
    /\ LET j == TraceLog[l]  a == ArchOf(j) IN
       /\ IF TreeClosed(a.modules) /\ \A e \in a.imports : e[1] \in a.modules /\ e[2] \in a.modules
          THEN TRUE ELSE Report("MACHINERY", "arch-not-wellformed", j.a)
       \* the architecture was constructed from an explicit module list and import list (the way the repository's
       \* tests build graphs): what the rules are judged on must be exactly that tree and that import relation
       /\ IF a = ArchOf(j.given) THEN TRUE
          ELSE Report("C01", "architecture-differs-from-the-modules-and-imports-it-was-built-from", j.a)
       \* ... and its hierarchy is the parent/child relation of the names
       /\ IF "hier" \notin DOMAIN j
             \/ PairSet(j.hier) = {<<SubSeq(m, 1, Len(m) - 1), m>> : m \in {m \in a.modules : Len(m) > 1}}
          THEN TRUE ELSE Report("C01,C04", "hierarchy-differs-from-the-module-names", j.a)
       \* "first" marks the first event of an episode: episodes are independent sessions, and the
       \* observation variables of the previous one are dropped (keeps states small, validation linear)
       /\ archs' = IF j.first THEN (j.a :> a) ELSE (j.a :> a) @@ archs
       /\ results' = IF j.first THEN <<>> ELSE results

(* ----------------------------------------------------------- addimport *)
AddImportStep ==
    /\ IsEvent("addimport")
    /\ LET j == TraceLog[l]
           old == archs[j.a]
           e == <<j.e[1], j.e[2]>>
           want == [old EXCEPT !.imports = @ \cup {e}]
           got == ArchOf(j) IN
       /\ IF e \notin old.imports THEN TRUE ELSE Report("MACHINERY", "addimport-not-new", j.a2)
       /\ IF got = want THEN TRUE ELSE Report("C15", "arch-plus-one-import", j.a2)
       /\ archs' = (j.a2 :> want) @@ archs
    /\ UNCHANGED results

(* ---------------------------------------------------------------- eval *)
HasCompact(raw) == \E f \in SeqToSet(raw.subs \o raw.objs) : f.kind \in {"regex", "partial"}
EvalFails(j, T, I) ==
    LET r     == RuleOf(j.rule)
        n     == Norm(r)
        D     == Den(T, r.subs \cup r.objs)
        obs   == ObsOf(j)
        known == NamesKnown(T, r)
        nomatch == EmptyMatch(j.rule.subs) \/ ((~j.rule.any) /\ EmptyMatch(j.rule.objs))
        cands == {c \in Allowed(D, I, r) : c.pass = obs.pass}
        wf    == (IF obs.realised \subseteq I THEN {} ELSE {<<"C03", "reported-import-does-not-exist">>})
                 \cup (IF \A e \in obs.realised \cap I : \E s \in n.subs : Anc(s.name, From(r, e))
                       THEN {} ELSE {<<"C03", "reported-import-unrelated-to-subject">>})
                 \cup (IF \A m \in obs.medge \cup obs.mother : m[1] \in n.subs /\ m[2] \subseteq n.objs
                       THEN {} ELSE {<<"C03", "missing-line-names-foreign-module">>})
                 \cup (IF j.bad = <<>> THEN {} ELSE {<<"C03", "unparsable-line">>})
                 \cup (IF obs.pass => (obs.realised = {} /\ obs.medge = {} /\ obs.mother = {}) THEN {}
                       ELSE {<<"MACHINERY", "pass-with-message">>})
    IN
    IF nomatch THEN (IF j.out = "error" THEN {} ELSE {<<"C11", "no-match-must-be-an-error">>})
    ELSE IF ~known THEN (IF j.out = "error" THEN {} ELSE {<<"C13", "unknown-name-must-be-an-error">>})
    ELSE IF j.out = "error" THEN {<<"C01", "well-formed-rule-raised-an-error">>}
    ELSE wf \cup
      (IF ~Strict(r) THEN {}
       ELSE IF cands = {} THEN {<<"C01", "verdict">>}
       ELSE (IF \E c \in cands : c.realised = obs.realised THEN {}
             ELSE IF \E c \in cands : c.realised \subseteq obs.realised
                  THEN {<<"C03", "realised-extra-lines">>}
                  ELSE IF \E c \in cands : obs.realised \subseteq c.realised
                       THEN {<<"C03", "realised-lines-lost">>} ELSE {<<"C03", "realised">>})
            \cup (IF \E c \in cands : c.medge = obs.medge THEN {} ELSE {<<"C03", "missing-edge-lines">>})
            \cup (IF \E c \in cands : c.mother = obs.mother THEN {} ELSE {<<"C03", "missing-other-lines">>})
            \cup (IF obs \in cands \/ ~(\E c \in cands : c.realised = obs.realised)
                     \/ ~(\E c \in cands : c.medge = obs.medge) \/ ~(\E c \in cands : c.mother = obs.mother)
                  THEN {} ELSE {<<"C03", "outcome-joint">>}))

EvalStep ==
    /\ IsEvent("eval")
    /\ LET j == TraceLog[l]
           a == archs[j.a]
           key == <<j.a, j.rid>>
           fails == EvalFails(j, a.modules, a.imports)
           \* only evaluations a later law event refers to are remembered ("keep"), see ArchStep
           rec == [cfg |-> RuleOf(j.rule), out |-> j.out, obs |-> ObsOf(j),
                   compact |-> HasCompact(j.rule)] IN
       /\ \A f \in fails : Report(f[1], f[2], j.rid)
       /\ IF j.same THEN TRUE ELSE Report("C15", "architecture-changed-by-evaluation", j.rid)
       \* session replays (Session.tla) also evaluate the configuration in isolation - fresh architecture, fresh
       \* rule object - and log whether verdict and message were the same
       /\ IF "fresh_same" \in DOMAIN j /\ ~j.fresh_same
          THEN Report("C15", "outcome-depends-on-history-or-object-reuse", j.rid) ELSE TRUE
       /\ IF key \in DOMAIN results
          THEN /\ IF results[key].out = j.out /\ results[key].obs = ObsOf(j)
                  THEN TRUE ELSE Report("C15", "re-evaluation-differs", j.rid)
               /\ UNCHANGED results
          ELSE results' = IF j.keep THEN (key :> rec) @@ results ELSE results
    /\ UNCHANGED archs

(* --------------------------------------------------------------- query *)
\* The three graph questions of the EvaluableArchitecture protocol, observed directly (C03: the sets that
\* messages are generated from).  Judged only when all filters are pairwise unrelated.
QueryFails(j, T, I) ==
    LET dep  == FiltersOf(j.dependents)
        upon == FiltersOf(j.upons)
        D    == Den(T, dep \cup upon)
        asImport   == [verb |-> "should_not", dir |-> "import",   exc |-> TRUE, any |-> FALSE, subs |-> dep,  objs |-> upon]
        asImported == [verb |-> "should_not", dir |-> "imported", exc |-> TRUE, any |-> FALSE, subs |-> upon, objs |-> dep]
        got(k) == UNION {PairSet(e.deps) : e \in {e \in SeqToSet(j.result) : e.key = k}}
        keys   == {e.key : e \in SeqToSet(j.result)}
        fk(f)  == <<[kind |-> f.kind, name |-> f.name]>>
        strictq == PairwiseUnrelated(dep) /\ PairwiseUnrelated(upon)
                     /\ \A d \in dep, u \in upon : ~Related(d.name, u.name)
    IN
    IF ~strictq \/ ~(\A f \in dep \cup upon : f.name \in T) THEN {}
    ELSE CASE j.q = "deps" ->
              (IF keys = {<<d, u>> : d \in dep, u \in upon} THEN {} ELSE {<<"C03", "query-deps-keys">>})
              \cup (IF \A d \in dep, u \in upon : got(<<d, u>>) = EdgeSet(D, I, asImport, d, u)
                    THEN {} ELSE {<<"C03", "query-deps-edges">>})
      [] j.q = "other_from" ->
              (IF keys = {<<d>> : d \in dep} THEN {} ELSE {<<"C03", "query-other-from-keys">>})
              \cup (IF \A d \in dep : got(<<d>>) = OtherSet(D, I, asImport, d)
                    THEN {} ELSE {<<"C03", "query-other-from-edges">>})
      [] j.q = "other_on" ->
              (IF keys = {<<u>> : u \in upon} THEN {} ELSE {<<"C03", "query-other-on-keys">>})
              \cup (IF \A u \in upon : got(<<u>>) = OtherSet(D, I, asImported, u)
                    THEN {} ELSE {<<"C03", "query-other-on-edges">>})
      [] OTHER -> {<<"MACHINERY", "unknown-query">>}

QueryStep ==
    /\ IsEvent("query")
    /\ LET j == TraceLog[l]  a == archs[j.a] IN
       \A f \in QueryFails(j, a.modules, a.imports) : Report(f[1], f[2], j.q)
    /\ UNCHANGED <<archs, results>>

(* ----------------------------------------------------------------- law *)
\* a law event names evaluations by <<arch id, rule id>>: j.as[i], j.rids[i]
Res(a, rid) == results[<<a, rid>>]
Verdict(x)  == x.out      \* "pass" | "fail" | "error"
Single(r)   == Cardinality(r.subs) = 1 /\ (r.any \/ Cardinality(r.objs) = 1)

LawFails(j) ==
    LET R == [i \in DOMAIN j.rids |-> Res(j.as[i], j.rids[i])]
        n == Len(j.rids)
        c(i) == R[i].cfg
        v(i) == Verdict(R[i])
        p(i) == v(i) = "pass"
        noerr == \A i \in DOMAIN R : v(i) # "error"
        onearch == \A i \in DOMAIN j.as : archs[j.as[i]] = archs[j.as[1]]
        Bind(ok, name) == IF ok THEN {} ELSE {<<"MACHINERY", name>>}
        Law(ok, prop, name) == IF ok THEN {} ELSE {<<prop, name>>}
    IN
    CASE j.law = "dual" ->
            Bind(onearch /\ c(2) = Dual(c(1)) /\ c(1).verb \in {"should", "should_not"} /\ ~c(1).exc /\ ~c(1).any,
                 "dual-binding")
            \cup Law(v(1) = v(2), "C12", "duality")
      [] j.law = "neg" ->
            Bind(onearch /\ c(1).verb = "should" /\ c(2) = WithVerb(c(1), "should_not", c(1).exc)
                   /\ Single(c(1)) /\ ~c(1).any, "neg-binding")
            \cup Law(noerr => (p(1) # p(2)), "C12", "negation")
      [] j.law = "decomp" ->
            Bind(onearch /\ c(1).verb = "should_only" /\ c(2) = WithVerb(c(1), "should", c(1).exc)
                   /\ c(3) = WithVerb(c(1), "should_not", ~c(1).exc) /\ ~c(1).any, "decomp-binding")
            \cup Law(noerr => (p(1) = (p(2) /\ p(3))), "C12", "decomposition")
      [] j.law = "any" ->
            \* stated for subjects that are not sub modules of one another: "except the subject itself" has no
            \* documented meaning for a batch that lists a module together with its own sub module
            Bind(onearch /\ c(1).any /\ c(2) = Norm(c(1)) /\ PairwiseUnrelated(c(1).subs), "any-binding")
            \cup Law(v(1) = v(2), "C12", "anything-alias-verdict")
            \cup Law(R[1].obs = R[2].obs, "C12", "anything-alias-message")
      [] j.law = "batchsub" ->
            Bind(onearch /\ ~c(1).any /\ {c(i) : i \in 2..n} = {[c(1) EXCEPT !.subs = {s}] : s \in c(1).subs},
                 "batchsub-binding")
            \cup Law(noerr => (p(1) = (\A i \in 2..n : p(i))), "C11", "batch-subjects-conjunction")
      [] j.law = "batchobj" ->
            Bind(onearch /\ ~c(1).any /\ ~c(1).exc /\ c(1).verb \in {"should", "should_not"}
                   /\ {c(i) : i \in 2..n} = {[c(1) EXCEPT !.objs = {o}] : o \in c(1).objs}, "batchobj-binding")
            \cup Law(noerr => (p(1) = (\A i \in 2..n : p(i))), "C11", "batch-objects-conjunction")
      [] j.law = "expand" ->      \* compact (regex / partial name) form vs. the list of matched names
            Bind(onearch /\ c(1) = c(2) /\ R[1].compact /\ ~R[2].compact, "expand-binding")
            \cup Law(v(1) = v(2), "C11", "compact-vs-expanded-verdict")
            \cup Law(R[1].obs = R[2].obs, "C11", "compact-vs-expanded-message")
      [] j.law = "partial" ->     \* deprecated partial-name form vs. its regex translation
            Bind(onearch /\ c(1) = c(2) /\ R[1].compact /\ R[2].compact, "partial-binding")
            \cup Law(v(1) = v(2) /\ R[1].obs = R[2].obs, "C11", "partial-name-vs-regex")
      [] j.law = "same" ->        \* one configuration evaluated twice: other order / history / object / hash seed
            Bind(onearch /\ c(1) = c(2), "same-binding")
            \cup Law(v(1) = v(2) /\ R[1].obs = R[2].obs, "C15", "same-configuration-differs")
      [] j.law = "rename" ->      \* one abstract world and rule under two injective component renamings
            Bind(c(1) = c(2), "rename-binding")
            \cup Law(onearch, "C14", "renaming-changes-the-architecture-built-from-the-same-modules-and-imports")
            \cup Law(v(1) = v(2), "C14", "renaming-changes-verdict")
            \cup Law(R[1].obs = R[2].obs, "C14", "renaming-changes-message")
      [] j.law = "mono" ->
            Bind(c(1) = c(2) /\ archs[j.as[1]].modules = archs[j.as[2]].modules
                   /\ archs[j.as[1]].imports \subseteq archs[j.as[2]].imports, "mono-binding")
            \cup Law(noerr => ((c(1).verb = "should" /\ p(1)) => p(2)), "C12", "monotone-should")
            \cup Law(noerr => ((c(1).verb = "should_not" /\ ~p(1)) => ~p(2)), "C12", "monotone-should-not")
      [] OTHER -> {<<"MACHINERY", "unknown-law">>}

LawStep ==
    /\ IsEvent("law")
    /\ LET j == TraceLog[l] IN \A f \in LawFails(j) : Report(f[1], f[2], j.rids)
    /\ UNCHANGED <<archs, results>>

TraceInit == l = 1 /\ archs = <<>> /\ results = <<>>
TraceNext == ArchStep \/ AddImportStep \/ EvalStep \/ QueryStep \/ LawStep
TraceSpec == TraceInit /\ [][TraceNext]_vars

\* every reachable state keeps the recorded architectures well-formed (an invariant of the session model)
ArchsWF == \A a \in DOMAIN archs : \A e \in archs[a].imports : e[1] \in archs[a].modules /\ e[2] \in archs[a].modules

TraceAccepted == TLCGet("stats").diameter - 1 = Len(TraceLog)
=============================================================================
