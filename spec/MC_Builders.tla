----------------------------- MODULE MC_Builders -----------------------------
(***************************************************************************)
(* Bounded exploration of builder call histories.  `hist` is the history   *)
(* variable; every distinct state is one call history, which is emitted    *)
(* (EMIT) for replay into the real classes.  The automaton state `st` is   *)
(* checked against an independent reading of the history (C13/C16 at the   *)
(* model level).                                                           *)
(***************************************************************************)
EXTENDS Builders, TLC, Json

CONSTANTS Which,     \* "rule" | "arch" | "lrule" | "diag"
          MaxLen, EMIT

A == <<"r", "a">>
B == <<"r", "b">>
T == {<<"r">>, A, <<"r", "a", "x">>, B, <<"r", "b", "y">>, <<"r", "c">>}

VARIABLES st, hist
vars == <<st, hist>>

(* ------------------------------------------------------------ vocabulary *)
ArgName(s) == IF s.next = "obj" THEN B ELSE A
RuleCalls(s) ==
    {[m |-> m] : m \in {"modules_that"} \cup VerbMethods \cup ImportMethods}
    \cup {[m |-> "are_named", filters |-> {[kind |-> "named", name |-> ArgName(s)]}, nomatch |-> FALSE],
          [m |-> "are_sub_modules_of", filters |-> {[kind |-> "sub", name |-> ArgName(s)]}, nomatch |-> FALSE],
          [m |-> "have_name_matching", filters |-> {[kind |-> "named", name |-> ArgName(s)]}, nomatch |-> FALSE],
          [m |-> "have_name_containing", filters |-> {[kind |-> "named", name |-> ArgName(s)]}, nomatch |-> FALSE],
          [m |-> "are_named", filters |-> {}, nomatch |-> FALSE]}          \* an empty list: nothing was specified

ArchCalls ==
    {[m |-> "with_layer"], [m |-> "layer", name |-> "L1"], [m |-> "layer", name |-> "L2"],
     [m |-> "have_modules_with_names_matching", regex |-> <<"regex">>]}
    \cup {[m |-> "containing_modules", names |-> ns, list |-> l] :
             ns \in {<<A>>, <<B>>}, l \in BOOLEAN}
    \cup {[m |-> "containing_modules", names |-> <<A, B>>, list |-> TRUE],
          [m |-> "containing_modules", names |-> <<B, A>>, list |-> TRUE],      \* a list that is not in ascending order
          [m |-> "containing_modules", names |-> <<>>, list |-> TRUE]}

\* "arch3": three layers and three modules, calls alternating layer(..) / containing_modules(..) - all definitions
\* with up to three layers (needed for guards that must look at EVERY earlier layer, not only the previous one)
C3 == <<"r", "c">>
C3s == <<"r", "c ">>       \* an opaque name token that differs from C3 by a trailing blank only: another name
Arch3Calls(n) ==
    IF n % 2 = 0 THEN {[m |-> "layer", name |-> nm] : nm \in {"L1", "L2", "L3", "l1"}}      \* "l1": differs from "L1" in case only
    ELSE {[m |-> "containing_modules", names |-> <<x>>, list |-> l] : x \in {A, B, C3, C3s}, l \in BOOLEAN}
             \cup {[m |-> "have_modules_with_names_matching", regex |-> <<"regex">>],
                   [m |-> "containing_modules", names |-> <<>>, list |-> TRUE]}

Defined == {"L1", "L2", "L3"}
LRuleCalls ==
    {[m |-> m] : m \in {"based_on", "layers_that", "should", "should_not", "access_layers_that",
                        "access_layers_except_layers_that", "access_any_layer"}}
    \cup {[m |-> "are_named", layers |-> <<"L1">>, list |-> FALSE, defined |-> Defined],
          [m |-> "are_named", layers |-> <<"L2">>, list |-> FALSE, defined |-> Defined],
          [m |-> "are_named", layers |-> <<"L1", "L2">>, list |-> TRUE, defined |-> Defined],
          [m |-> "are_named", layers |-> <<"LX">>, list |-> FALSE, defined |-> Defined]}

\* "lchain": well-shaped LayerRule chains, one choice per position - based_on, layers_that, subject, verb, access kind,
\* object layer(s) - with every verb and access kind and with object LISTS of two layers in both orders (the complete
\* chains that the free exploration above is too shallow to reach)
LChainCalls(n) ==
    CASE n = 0 -> {[m |-> "based_on"]}
      [] n = 1 -> {[m |-> "layers_that"]}
      [] n = 2 -> {[m |-> "are_named", layers |-> <<"L1">>, list |-> l, defined |-> Defined] : l \in BOOLEAN}
      [] n = 3 -> {[m |-> v] : v \in LRuleVerbs}
      [] n = 4 -> {[m |-> a] : a \in LRuleAccess}
      [] n = 5 -> {[m |-> "are_named", layers |-> <<"L2">>, list |-> FALSE, defined |-> Defined],
                   [m |-> "are_named", layers |-> <<"L3">>, list |-> TRUE, defined |-> Defined],
                   [m |-> "are_named", layers |-> <<"L2", "L3">>, list |-> TRUE, defined |-> Defined],
                   [m |-> "are_named", layers |-> <<"L3", "L2">>, list |-> TRUE, defined |-> Defined],
                   [m |-> "are_named", layers |-> <<"L2", "LX">>, list |-> TRUE, defined |-> Defined]}
      [] OTHER -> {}

DiagCalls == {[m |-> "from_file", file |-> f] : f \in {"good", "notags", "startonly", "endonly", "reversed"}} \cup {
              [m |-> "with_base_module"], [m |-> "base_module_included_in_module_names"]}

Calls(s) == CASE Which = "rule" -> RuleCalls(s) [] Which = "arch" -> ArchCalls [] Which = "arch3" -> Arch3Calls(Len(hist))
              [] Which = "lrule" -> LRuleCalls [] Which = "lchain" -> LChainCalls(Len(hist)) [] Which = "diag" -> DiagCalls
StepOf(s, c) == CASE Which = "rule" -> RuleStep(s, c) [] Which \in {"arch", "arch3"} -> ArchStep(s, c)
                  [] Which \in {"lrule", "lchain"} -> LRuleStep(s, c) [] Which = "diag" -> DiagStep(s, c)
InitSt == CASE Which = "rule" -> RInit [] Which \in {"arch", "arch3"} -> AInit [] Which \in {"lrule", "lchain"} -> LInit [] Which = "diag" -> DInit

Init == st = InitSt /\ hist = <<>>
Call(c) == /\ Len(hist) < MaxLen
           /\ LET step == StepOf(st, c) IN
              \* "either" outcomes: the model follows the accepting branch and the rejecting one
              \/ /\ step.out \in {"ok", "either"} /\ st' = step.state /\ hist' = Append(hist, [c |-> c, out |-> "ok"])
              \/ /\ step.out \in {"error", "either"} /\ st' = st /\ hist' = Append(hist, [c |-> c, out |-> "error"])
Next == \E c \in Calls(st) : Call(c)
Spec == Init /\ [][Next]_vars

(* ------------------------------------------------- model-level properties *)
Accepted == {i \in DOMAIN hist : hist[i].out = "ok"}
M(i) == hist[i].c.m

\* Rule: the automaton state is what an independent reading of the accepted history says (C13)
RuleStateIsHistory ==
    Which = "rule" =>
      /\ st.verbs = {M(i) : i \in {i \in Accepted : M(i) \in VerbMethods}}
      /\ (st.dir = "unset") = ({i \in Accepted : M(i) \in ImportMethods} = {})
      /\ LET SubjIdx == {i \in Accepted : M(i) \in ListMethods
                               /\ \E k \in 1..(i-1) : M(k) = "modules_that"
                                     /\ \A q \in (k+1)..(i-1) : M(q) \notin ImportMethods \cup {"modules_that"}}
             last == CHOOSE i \in SubjIdx : \A k \in SubjIdx : k <= i
         IN (st.subs = {}) = (SubjIdx = {} \/ hist[last].c.filters = {})      \* the last subject list wins; an empty one specifies nothing
      /\ \A i \in DOMAIN hist : (M(i) \in ListMethods /\ hist[i].out = "error") =>
                                    ~\E k \in 1..(i-1) : M(k) \in ImportMethods \cup {"modules_that"}
\* Rule: a state that must not error has at least one verdict on every architecture; one that must error has none
RuleClassTotal ==
    Which = "rule" => \A I \in {{}, {<<A, B>>}} :
        (~RuleMayError(st, T)) => RuleVerdicts(st, T, I) # {}
\* LayeredArchitecture: every reachable definition is well-formed (C16)
ArchAlwaysWF == Which \in {"arch", "arch3"} => ArchWF(st)
\* LayeredArchitecture: the definition lists exactly what accepted calls supplied, in order (C16)
ArchIsHistory ==
    Which \in {"arch", "arch3"} =>
      LET acc == SelectSeq(hist, LAMBDA h : h.out = "ok" /\ (h.c.m = "have_modules_with_names_matching"
                                                              \/ (h.c.m = "containing_modules" /\ h.c.names # <<>>)))
      IN /\ Len(st.layers) = Len(acc)
         /\ \A i \in DOMAIN acc : st.layers[i].items = (IF acc[i].c.m = "containing_modules" THEN acc[i].c.names ELSE <<acc[i].c.regex>>)
\* LayerRule: at most one subject layer, ever (C16)
LRuleOneSubject == Which \in {"lrule", "lchain"} => (Cardinality(st.rule.subs) <= 1)
\* rejected calls leave the state unchanged (all builders)
RejectedUnchanged == [][Last(hist').out = "error" => st' = st]_vars

EmitHist == EMIT => PrintT("HIST " \o ToJson([which |-> Which, hist |-> hist]))

\* Closure of the automaton (DESIGN 13.3, round 5): with VIEW ClosureView two histories that lead to the same automaton
\* state are ONE state for TLC, so the search ends when every reachable automaton state has been found - whatever the
\* length of the history that leads there - and the invariants over `st` hold for call histories of ANY length over the
\* vocabulary.  BFS keeps a shortest history per automaton state; the harness replays it followed by every call of
\* the vocabulary (one test per transition of the complete automaton).
ClosureView == st
EmitClosure == EMIT => PrintT("CLOS " \o ToJson([which |-> Which, hist |-> hist, calls |-> SetToSeq(Calls(st))]))
=============================================================================
