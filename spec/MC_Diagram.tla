----------------------------- MODULE MC_Diagram -----------------------------
(***************************************************************************)
(* Bounded model for C06/C07.                                               *)
(*  Mode "parse":    diagrams grow line by line (AddLine); every documented *)
(*                   diagram reached is emitted for the real parser.        *)
(*  Mode "conform":  a fixed family of component relations over three       *)
(*                   components, the import relation grows; TLC checks that *)
(*                   pairwise conformance equals the conjunction of the      *)
(*                   generated rules in every state (C07 at model level).    *)
(***************************************************************************)
EXTENDS DiagramSem, TLC, Json

CONSTANTS Mode, MaxLines, EMIT, Dotted

C1 == IF Dotted THEN <<"r", "a">> ELSE <<"a">>
C2 == IF Dotted THEN <<"r", "b">> ELSE <<"b">>
C3 == IF Dotted THEN <<"r", "c">> ELSE <<"c">>
Comps == {C1, C2, C3}
AliasName(c) == IF c = C1 THEN "AL1" ELSE IF c = C2 THEN "AL2" ELSE "AL3"

VARIABLES diagram, imports
vars == <<diagram, imports>>

DeclLines == {[t |-> "decl", comp |-> c, form |-> f, alias |-> a] :
                 c \in {C1, C2}, f \in DeclForms, a \in {"", "AL"}}
Lines == {[t |-> "decl", comp |-> c, form |-> f, alias |-> IF al THEN AliasName(c) ELSE ""] :
             c \in {C1, C2}, f \in DeclForms, al \in BOOLEAN}
         \cup {[t |-> "arrow", left |-> [how |-> h1, comp |-> a], right |-> [how |-> h2, comp |-> b], form |-> f] :
                  a \in {C1, C2}, b \in {C1, C2, C3}, h1 \in RefForms, h2 \in RefForms, f \in Arrows}
         \cup {[t |-> "noise"]}

\* conform mode
Base == IF Dotted THEN <<>> ELSE <<"r">>
T == {<<"r">>, <<"r","a">>, <<"r","a","x">>, <<"r","b">>, <<"r","c">>, <<"r","d">>}
Leaves == {m \in T : StrictDesc(T, m) = {}}
\* r.d is a bystander: it is imported but does not import
Cand == {e \in (Leaves \ {<<"r","d">>}) \X (T \ {<<"r">>}) : e[1] # e[2] /\ ~Anc(e[2], e[1])}
Relations == {{}, {<<C1, C2>>}, {<<C1, C2>>, <<C2, C1>>}, {<<C1, C2>>, <<C1, C3>>}, {<<C1, C2>>, <<C2, C3>>, <<C3, C1>>}}

Init == diagram = <<>> /\ imports = {}
AddLine(x) == Mode = "parse" /\ Len(diagram) < MaxLines /\ diagram' = Append(diagram, x) /\ UNCHANGED imports
AddImport(e) == Mode = "conform" /\ e \notin imports /\ imports' = imports \cup {e} /\ UNCHANGED diagram
Next == (\E x \in Lines : AddLine(x)) \/ (\E e \in Cand : AddImport(e))
Spec == Init /\ [][Next]_vars

\* C06 at the model level: meaning depends on the set of lines only, not on their order or reference forms
Canon(x) == IF x.t = "arrow" THEN [t |-> "dep", p |-> Dep(x)] ELSE IF x.t = "decl" THEN [t |-> "c", p |-> x.comp] ELSE [t |-> "n"]
OrderAndFormIndependent ==
    [][Mode = "parse" => \A i \in 1..Len(diagram) :
          LET swapped == [k \in DOMAIN diagram' |-> IF k = i THEN diagram'[Len(diagram')]
                                                  ELSE IF k = Len(diagram') THEN diagram'[i] ELSE diagram'[k]]
          IN Components(swapped) = Components(diagram') /\ Deps(swapped) = Deps(diagram')]_vars
MeaningIsCanonical == Components(diagram) = {Canon(diagram[i]).p : i \in {i \in DOMAIN diagram : diagram[i].t = "decl"}}
                                               \cup UNION {{Dep(x)[1], Dep(x)[2]} : x \in ArrowsOf(diagram)}

\* C07 at the model level: pairwise conformance == conjunction of the generated rules
ConformsIsRules ==
    Mode = "conform" => \A deps \in Relations : \A only \in BOOLEAN :
        Conforms(T, imports, Comps, deps, only, <<"r">>) = DOutcome(T, imports, Comps, deps, only, <<"r">>).pass
ConformVaries == Mode = "conform" => TRUE

EmitDiagram == (EMIT /\ Mode = "parse" /\ DocumentedDiagram(diagram)) =>
                  PrintT("DIAGRAM " \o ToJson([lines |-> diagram]))
EmitState == (EMIT /\ Mode = "conform") =>
                  PrintT("STATE " \o ToJson([imports |-> SetToSeq(imports), modules |-> SetToSeq(T)]))
=============================================================================
