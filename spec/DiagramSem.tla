----------------------------- MODULE DiagramSem -----------------------------
(***************************************************************************)
(* PlantUML component diagrams in the documented subset, as abstract syntax *)
(* (C06), and what it means for an architecture to conform to one (C07).    *)
(*                                                                         *)
(* A diagram is a sequence of lines:                                        *)
(*   [t |-> "decl",  comp, form \in DeclForms, alias]   ("" = no alias)     *)
(*   [t |-> "arrow", left, right : [how \in RefForms, comp], form \in Arrows]*)
(*   [t |-> "noise"]                                                        *)
(* comp is the component's NAME as a component sequence (<<"a">> for a      *)
(* simple identifier, <<"pkg","a">> for a fully qualified dotted name).     *)
(* The concrete text is produced by the harness renderer from exactly this  *)
(* term; a reference carries the component it denotes and how it is written.*)
(***************************************************************************)
EXTENDS RuleSem

DeclForms == {"brackets", "component", "component_brackets"}      \* [n] | component n | component [n]
RefForms  == {"bracket", "bare", "alias"}                         \* [n] | n | alias
Arrows    == {"-->", "->", "<--", "<-", "-t->", "<-t-"}
RightPointing(f) == f \in {"-->", "->", "-t->"}

Decls(d)  == {d[i] : i \in {i \in DOMAIN d : d[i].t = "decl"}}
ArrowsOf(d) == {d[i] : i \in {i \in DOMAIN d : d[i].t = "arrow"}}

Components(d) == {x.comp : x \in Decls(d)} \cup UNION {{x.left.comp, x.right.comp} : x \in ArrowsOf(d)}
Dep(x)        == IF RightPointing(x.form) THEN <<x.left.comp, x.right.comp>> ELSE <<x.right.comp, x.left.comp>>
Deps(d)       == {Dep(x) : x \in ArrowsOf(d)}
AliasOf(d, c) == IF \E x \in Decls(d) : x.comp = c /\ x.alias # ""
                 THEN (CHOOSE x \in Decls(d) : x.comp = c /\ x.alias # "").alias ELSE ""

\* the documented input language (DESIGN section 5, guard 4)
Refs(d) == UNION {{x.left, x.right} : x \in ArrowsOf(d)}
DocumentedDiagram(d) ==
    /\ \A x, y \in Decls(d) : x.comp = y.comp => x = y                    \* declared at most once
    /\ \A x \in Decls(d) : x.alias # "" => x.form # "component"            \* alias only on bracketed declarations
    /\ \A x, y \in Decls(d) : (x.alias # "" /\ x.alias = y.alias) => x = y
    /\ \A x \in Decls(d) : x.alias # "" =>                                 \* an alias is not ANOTHER component's name
          \A c \in {y.comp : y \in Decls(d)} \cup UNION {{y.left.comp, y.right.comp} : y \in ArrowsOf(d)} :
              c # x.comp => c # <<x.alias>>
    /\ \A r \in Refs(d) : r.how = "alias" => AliasOf(d, r.comp) # ""      \* alias declared somewhere (any line order)
    /\ \A x \in ArrowsOf(d) : x.left.comp # x.right.comp                   \* no self-arrows

\* the file around the diagram lines: which of the two tags it has, and in which order.  C06: a file without the
\* start/end tags is rejected - only a start tag FOLLOWED by an end tag delimits a diagram
TagForms == {"both", "none", "start_only", "end_only", "reversed"}
WellTagged(tf) == tf = "both"

(* ------------------------------------------------------------------ C07 *)
\* comps : set of component names; deps : set of <<dependor, dependee>>; base : prefix (<<>> = names are qualified)
ModOf(base, c) == base \o c
Imp(T, I, base, a, b) == \E e \in I : e[1] \in Desc(T, ModOf(base, a)) /\ e[2] \in Desc(T, ModOf(base, b))
Targets(deps, a) == {p[2] : p \in {p \in deps : p[1] = a}}
Outside(T, I, base, deps, a) ==      \* imports of a that leave a and its drawn targets
    {e \in I : /\ e[1] \in Desc(T, ModOf(base, a))
               /\ e[2] \notin Desc(T, ModOf(base, a))
               /\ \A b \in Targets(deps, a) : e[2] \notin Desc(T, ModOf(base, b))}

Conforms(T, I, comps, deps, only, base) ==
    /\ \A a, b \in comps : a # b => (Imp(T, I, base, a, b) <=> <<a, b>> \in deps)
    /\ only => \A a \in comps : Targets(deps, a) # {} => Outside(T, I, base, deps, a) = {}

\* the same thing as the rules the documentation says are generated, with their aggregated message
NF(base, c) == [kind |-> "named", name |-> ModOf(base, c)]
ShouldRule(only, base, deps, a) ==
    [verb |-> IF only THEN "should_only" ELSE "should", dir |-> "import", exc |-> FALSE, any |-> FALSE,
     subs |-> {NF(base, a)}, objs |-> {NF(base, b) : b \in Targets(deps, a)}]
ShouldNotRule(base, comps, deps, a) ==
    [verb |-> "should_not", dir |-> "import", exc |-> FALSE, any |-> FALSE,
     subs |-> {NF(base, a)}, objs |-> {NF(base, b) : b \in (comps \ {a}) \ Targets(deps, a)}]
GeneratedRules(comps, deps, only, base) ==
    {ShouldRule(only, base, deps, a) : a \in {a \in comps : Targets(deps, a) # {}}}
    \cup {ShouldNotRule(base, comps, deps, a) : a \in {a \in comps : (comps \ {a}) \ Targets(deps, a) # {}}}

DOutcome(T, I, comps, deps, only, base) ==
    LET rs == GeneratedRules(comps, deps, only, base)
        out(r) == Outcome(Den(T, r.subs \cup r.objs), I, r) IN
    [pass     |-> \A r \in rs : out(r).pass,
     realised |-> UNION {out(r).realised : r \in rs},
     medge    |-> UNION {out(r).medge : r \in rs},
     mother   |-> UNION {out(r).mother : r \in rs}]

\* domain: every component is a module of the architecture and components are pairwise unrelated
DiagramWF(T, comps, base) == /\ \A c \in comps : ModOf(base, c) \in T
                             /\ \A a, b \in comps : a # b => ~Related(ModOf(base, a), ModOf(base, b))
=============================================================================
