#!/bin/bash
# Offline setup: nothing to build - the harness is Python run from /verif, the specifications are parsed by TLC on use.
set -e
cd "$(dirname "$0")"
mkdir -p evidence out
java -version >/dev/null 2>&1
/venv/bin/python -c "import pytestarch, networkx"
(cd spec && for f in RuleSem.tla Trace_Rules.tla; do java -cp /opt/veriftools/tla/tla2tools.jar:/opt/veriftools/tla/CommunityModules-deps.jar tla2sany.SANY "$f" >/dev/null; done)
echo setup ok
