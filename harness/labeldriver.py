"""visualize() episodes on the real code, observed at the call into the drawing backend (C17).

spec: {"driver":"labels","world":{..},"render":"ident|clean|adv|adv2" (default; an item may carry its own "render"),
       "items":[{"op":"viz","a":0,"rid":"V1","aliases":[{"mod":[..],"text":".."}]|null,"spacing":0.5|null,
                 "kw":{"node_size":10,..},"order":"asc|desc","keep":bool},
                {"op":"law","law":"rename|same","as":[0,0],"rids":[..]}]}

The drawing function and the layout function that pytestarch's graph module calls are replaced by recorders
in this process only (the names `draw_networkx` / `spring_layout` inside pytestarch.eval_structure.networkxgraph).
"""
from __future__ import annotations

from unittest import mock

from harness.ruledriver import _renderer
from harness.world import World, build_real, observe


class _Layout(dict):
    pass


def _jsonable(v):
    return repr(v)


def run_episode(spec, uid="E"):
    events = []
    for _ in iter_episode(spec, uid, None, events):
        pass
    return events


def iter_episode(spec, uid="E", shared=None, events=None):
    """Generator form (one step per item).  With `shared` (session replays) an item may name an architecture number
    "a": the real architecture (world number, "ident") that another driver of the same session built - and possibly
    grew - is used instead of one built here."""
    import pytestarch.eval_structure.networkxgraph as nxg

    world = World(spec["world"]["modules"], spec["world"]["imports"])
    reals = {}
    events = events if events is not None else []
    logged = set()

    def real(kind, n=None):
        key = kind if n is None else (n, kind)
        if key not in reals:
            if n is not None and shared is not None and (n, kind) in shared:
                reals[key] = shared[(n, kind)]
            else:
                render, back = _renderer(kind)
                reals[key] = (build_real(world, render, level_limit=spec.get("level_limit"),
                                         order_seed=spec.get("order_seed")), render, back)
                if n is not None and shared is not None:
                    shared[(n, kind)] = reals[key]
        if key not in logged:
            logged.add(key)
            aid = f"{uid}.A{kind}" if n is None else f"{uid}.A{n}"
            events.append({"k": "arch", "a": aid, "first": not events, **observe(reals[key][0], reals[key][2])})
        return reals[key]

    referenced = {(a, rid) for it in spec["items"] if it["op"] == "law" for a, rid in zip(it["as"], it["rids"])}
    for it in spec["items"]:
        if it["op"] == "law":
            events.append({"k": "law", "law": it["law"], "as": [f"{uid}.A{a}" for a in it["as"]], "rids": it["rids"]})
            yield events
            continue
        kind = it.get("render", spec.get("render", "ident"))
        ev, render, back = real(kind, it.get("a") if shared is not None else None)
        conv = (lambda s: s.split(".")) if back is None else back
        before = observe(ev, back)
        aliases = it.get("aliases")
        kw = dict(it.get("kw") or {})
        kwargs = dict(kw)
        if aliases is not None:
            # "=SELF": the alias text is the module's own rendered name
            # "=NAMEOF": the alias text is the rendered name of another module (plus an optional suffix)
            aliases = [{"mod": a["mod"], "text": render(a["mod"]) if a["text"] == "=SELF" else
                        render(a["of"]) + a.get("suffix", "") if a["text"] == "=NAMEOF" else a["text"]} for a in aliases]
            pairs = [(render(a["mod"]), a["text"]) for a in aliases]
            if it.get("order") == "desc":
                pairs.reverse()
            kwargs["aliases"] = dict(pairs)
        if it.get("spacing") is not None:
            kwargs["spacing"] = it["spacing"]
        calls, layouts = [], []

        def fake_draw(graph, **k):
            calls.append((graph, k))

        def fake_layout(graph, **k):
            lay = _Layout({n: (0.0, 0.0) for n in graph.nodes})
            layouts.append((lay, k))
            return lay

        out, err = "ok", ""
        with mock.patch.object(nxg, "draw_networkx", fake_draw), mock.patch.object(nxg, "spring_layout", fake_layout):
            try:
                ev.visualize(**kwargs)
            except AssertionError:
                raise
            except Exception as e:  # noqa: BLE001
                out, err = "error", f"{type(e).__name__}: {e}"
        e = {"k": "viz", "a": f"{uid}.A{kind}" if (shared is None or it.get("a") is None) else f"{uid}.A{it['a']}",
             "rid": it["rid"], "with_aliases": aliases is not None,
             "aliases": [{"mod": list(a["mod"]), "text": a["text"]} for a in (aliases or [])],
             "out": out, "err": err[:300], "err_names": [], "labels": [], "labels_given": False, "render": [],
             "kw_in": sorted([k, _jsonable(v)] for k, v in kw.items()), "kw_out": [], "drawn": len(calls),
             "drawn_nodes": [], "spacing_given": it.get("spacing") is not None, "pos_from_layout": False,
             "layout_k_is_spacing": False, "same": observe(ev, back) == before,
             "keep": (kind, it["rid"]) in referenced}
        if out == "error":
            # which of the aliased modules does the error message name (as a maximal dotted-identifier token)?
            import re
            # (name characters: word characters and the '+' '-' of the adv4 rendering)
            named = lambda n: re.search(r"(?<![\w.+\-])" + re.escape(n) + r"(?![\w+\-]|\.[\w+\-])", err) is not None
            e["err_names"] = [list(a["mod"]) for a in aliases or [] if named(render(a["mod"]))]
        if calls:
            graph, k = calls[0]
            e["drawn_nodes"] = sorted(conv(n) for n in graph.nodes)
            labels = k.pop("labels", None)
            pos = k.pop("pos", None)
            e["kw_out"] = sorted([kk, _jsonable(v)] for kk, v in k.items())
            e["labels_given"] = labels is not None
            if labels is not None:
                e["labels"] = [{"mod": conv(n), "text": t} for n, t in labels.items()]
            if it.get("spacing") is not None:
                e["pos_from_layout"] = bool(layouts) and pos is layouts[0][0]
                e["layout_k_is_spacing"] = bool(layouts) and layouts[0][1].get("k") == it["spacing"]
            elif pos is not None:
                e["kw_out"].append(["pos", "unexpected"])
            # render table: text of <<source, rest>> for every module and every aliased module whose rendered name
            # is a raw string prefix of the module's rendered name (true ancestors and look-alikes), plus "no alias"
            table = []
            for m in world.modules:
                rm = render(m)
                table.append({"mod": list(m), "src": [], "text": rm})
                for a in aliases or []:
                    ra = render(a["mod"])
                    if rm.startswith(ra):
                        table.append({"mod": list(m), "src": list(a["mod"]), "text": a["text"] + rm[len(ra):]})
            e["render"] = table
        events.append(e)
        yield events
