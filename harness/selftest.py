"""./check <Cnn> --selftest : demonstrate that the trace specifications are bound to what the real code returned.

A few episodes are recorded from the real code on the unchanged tree (they must be accepted), then ONE recorded field
per event kind is corrupted - a verdict flipped, a message line dropped, a module removed, a label changed, a call's
accept/reject flipped - and TLC must reject every corrupted trace with a FAIL line.  A corruption that is accepted
means that field is not bound to the specification (the self-test fails, exit 2).
"""
from __future__ import annotations

import copy
import random

from harness import runner, tlc, trace

FAMILY = {"C01": "rules", "C03": "rules", "C11": "rules", "C12": "rules", "C05": "layers", "C06": "diagram",
          "C07": "diagram", "C13": "builders", "C16": "builders", "C17": "labels", "C14": "labels", "C15": "rules",
          "C02": "scan", "C04": "scan", "C08": "scan", "C09": "scan", "C10": "scan"}
MODULE = {"rules": "Trace_Rules", "layers": "Trace_Layers", "diagram": "Trace_Diagram", "builders": "Trace_Builders",
          "labels": "Trace_Labels", "scan": "Trace_Scan", "graph": "Trace_Graph"}
ALSO = {"C04": ["graph"], "C09": ["graph"], "C15": ["graph"]}       # second trace family of a property


def _episodes(family, rng):
    from harness.checks import c05, c17
    from harness.checks import rules_common as rc
    from harness.checks import scan_common as sc
    from harness.episodes import RuleEpisode
    from harness.world import random_world
    from harness import projgen

    specs = []
    for _ in range(12):
        w = random_world(rng, n_modules=rng.randint(8, 16), n_imports=rng.randint(10, 40))
        if family == "rules":
            ep = RuleEpisode(w)
            for r in rc.sampled_rules(rng, w.modules, 25, max_batch=2, strict_bias=1.0):
                ep.with_partners(r)
            specs.append(ep.spec)
        elif family == "layers":
            tops = c05.tops_of(w)
            if len(tops) >= 3:
                specs.append(c05._episode(rng, w, [c05.partitions(rng, tops, 3, kinds="names")], n_rules=20, laws=False))
        elif family == "labels":
            specs.append({"driver": "labels", "world": w.json(), "render": "ident",
                          "items": c17.viz_items(rng, rng.sample(w.modules, 3))})
        elif family == "scan":
            p = projgen.random_project(rng, max_depth=3, n_stmts=rng.randint(8, 25), externals=False)
            ep = sc.ScanEpisode(p)
            ep.scan()
            specs.append(ep.spec)
        elif family == "diagram":
            from harness.checks import c06, c07
            specs.append({"driver": "diagram", "world": None,
                          "items": [{"op": "parse", "lines": c06.random_diagram(rng, ["a", "b", "c", "d", "e"], 3, False)}
                                    for _ in range(5)]})
        elif family == "graph":
            from harness.checks import graph_common as gc
            return runner.run_specs(gc.random_specs(rng, 12), 4)
        elif family == "builders":
            from harness.checks import builders_common as bc
            hs, _ = bc.emit_histories("arch", 3)
            return runner.run_specs(bc.specs_from("arch", rng.sample(hs, 40)), 4)
    return runner.run_specs(specs, 4)


def _corruptions(family):
    def flip(ev, a, b):
        ev["out"] = b if ev["out"] == a else a

    if family == "rules":
        return [("verdict flipped", lambda e: e["k"] == "eval" and e["out"] in ("pass", "fail") and not e["real"] and not e["miss"],
                 lambda e: e.update(out="pass" if e["out"] == "fail" else "fail", real=e["real"])),
                ("reported import dropped", lambda e: e["k"] == "eval" and len(e["real"]) > 0, lambda e: e["real"].pop()),
                ("missing-import line dropped", lambda e: e["k"] == "eval" and len(e["miss"]) > 0, lambda e: e["miss"].pop()),
                ("architecture reported as changed", lambda e: e["k"] == "eval", lambda e: e.update(same=False))]
    if family == "layers":
        return [("reported import dropped", lambda e: e["k"] == "leval" and len(e["real"]) > 0, lambda e: e["real"].pop()),
                ("failing verdict turned into pass", lambda e: e["k"] == "leval" and e["out"] == "fail",
                 lambda e: e.update(out="pass", real=[], miss=[])),
                ("layer tag changed", lambda e: e["k"] == "leval" and len(e["real"]) > 0,
                 lambda e: e["real"][0]["tags"].__setitem__(0, "NOSUCH"))]
    if family == "labels":
        return [("label text changed", lambda e: e["k"] == "viz" and len(e["labels"]) > 0 and e["aliases"],
                 lambda e: e["labels"][0].update(text=e["labels"][0]["text"] + "~")),
                ("label dropped", lambda e: e["k"] == "viz" and len(e["labels"]) > 0, lambda e: e["labels"].pop()),
                ("drawing option altered", lambda e: e["k"] == "viz" and e["out"] == "ok", lambda e: e["kw_out"].append(["zz", "1"]))]
    if family == "scan":
        return [("module dropped", lambda e: e["k"] == "scan" and len(e["modules"]) > 2, lambda e: e["modules"].pop()),
                ("import dropped", lambda e: e["k"] == "scan" and len(e["imports"]) > 0, lambda e: e["imports"].pop()),
                ("module invented", lambda e: e["k"] == "scan", lambda e: e["modules"].append(["r", "zz_invented"])),
                ("hierarchy edge dropped", lambda e: e["k"] == "scan" and len(e.get("hier", [])) > 0, lambda e: e["hier"].pop())]
    if family == "graph":
        return [("node dropped", lambda e: e["k"] == "build" and len(e["nodes"]) > 2, lambda e: e["nodes"].pop()),
                ("hierarchy edge dropped", lambda e: e["k"] == "build" and len(e["hier"]) > 0, lambda e: e["hier"].pop()),
                ("import invented", lambda e: e["k"] == "build" and len(e["nodes"]) > 2,
                 lambda e: e["imports"].append([e["nodes"][-1], e["nodes"][0]])),
                ("a later listing order gives another graph", lambda e: e["k"] == "build" and not e["first"] and len(e["hier"]) > 0,
                 lambda e: e["hier"].pop())]
    if family == "diagram":
        return [("component dropped", lambda e: e["k"] == "parse" and len(e["components"]) > 0, lambda e: e["components"].pop()),
                ("arrow dropped", lambda e: e["k"] == "parse" and len(e["deps"]) > 0, lambda e: e["deps"].pop())]
    if family == "builders":
        return [("call outcome flipped", lambda e: e["k"] == "call" and e["out"] in ("ok", "error"),
                 lambda e: e.update(out="error" if e["out"] == "ok" else "ok"))]
    return []


def run(ctx):
    reports = [_run_family(ctx, fam) for fam in [FAMILY[ctx.prop]] + ALSO.get(ctx.prop, [])]
    rep = reports[0]
    for extra in reports[1:]:
        rep.setdefault("further_families", []).append(extra)
        rep["ok"] = rep["ok"] and extra["ok"]
    return rep


def _run_family(ctx, family):
    module = MODULE[family]
    rng = random.Random(ctx.seed + 4242)
    episodes = [e for e in _episodes(family, rng) if e]
    base = trace.validate(episodes, f"{module}.tla", f"{module}.cfg", procs=4)
    report = {"property": ctx.prop, "family": family, "trace_specification": module, "events": base.events,
              "accepted_unmodified": not base.fails, "corruptions": []}
    ok = not base.fails
    for name, where, corrupt in _corruptions(family):
        eps = copy.deepcopy(episodes)
        n = 0
        for ep in eps:
            cands = [e for e in ep if where(e)]
            if cands:
                corrupt(rng.choice(cands))
                n += 1
        tr = trace.validate(eps, f"{module}.tla", f"{module}.cfg", procs=4)
        rejected = len({f["episode"] for f in tr.fails})
        report["corruptions"].append({"what": name, "episodes_corrupted": n, "episodes_rejected": rejected,
                                      "clauses": sorted({f["clause"] for f in tr.fails})[:6]})
        # a dropped import may have been a "may" edge, a flipped verdict may concern a non-strict rule: such
        # corruptions are legitimately accepted, so at least half of the corrupted episodes must be rejected
        if n == 0 or rejected < max(1, n // 2):
            ok = False
    report["ok"] = ok
    return report
