"""Harness-side reading of the documented glob ('partial match') shapes, independent of the code's converter.
The authoritative statement is spec/Glob.tla; this is only used to build regexes for drivers."""
from __future__ import annotations

import re


def parse(p: str):
    lead = p.startswith("*")
    trail = p.endswith("*") and len(p) > (1 if lead else 0)
    if p == "*":
        lead, trail = True, True  # the converter reads "*" as both markers around an empty core
        return True, "", True
    core = p[(1 if lead else 0): (len(p) - 1 if trail else len(p))]
    return lead, core, trail


def to_regex(p: str) -> str:
    lead, core, trail = parse(p)
    return (".*" if lead else "") + re.escape(core) + (".*" if trail else "$")
