"""Builder for rule-episode specs: de-duplicates evaluations and adds the law events of C11/C12."""
from __future__ import annotations

import json

from harness.rulesapi import mk_rule


def _key(rule, a):
    return json.dumps([a, rule], sort_keys=True)


class RuleEpisode:
    def __init__(self, world, render="ident"):
        self.spec = {"driver": "rules", "world": world if isinstance(world, dict) else world.json(),
                     "render": render, "items": []}
        self._rid = {}
        self._laws = set()

    def eval(self, rule, a=0, **kw):
        k = _key(rule, a)
        if k not in self._rid:
            rid = f"R{len(self._rid)}"
            self._rid[k] = rid
            self.spec["items"].append({"op": "eval", "a": a, "rid": rid, "rule": rule, **kw})
        return self._rid[k]

    def law(self, law, rids, as_=None):
        as_ = as_ or [0] * len(rids)
        k = (law, tuple(rids), tuple(as_))
        if k in self._laws:
            return
        self._laws.add(k)
        self.spec["items"].append({"op": "law", "law": law, "as": list(as_), "rids": list(rids)})

    def addimport(self, a, a2, e):
        self.spec["items"].append({"op": "addimport", "a": a, "a2": a2, "e": [list(e[0]), list(e[1])]})

    # ---- C12 / C11 partners
    def with_partners(self, rule, a=0):
        rid = self.eval(rule, a)
        v, d, x = rule["verb"], rule["dir"], rule["exc"]
        od = "imported" if d == "import" else "import"
        if rule["any"]:
            from harness.names import related
            ns = [tuple(f["name"]) for f in rule["subs"]]
            if all(not related(x, y) for i, x in enumerate(ns) for y in ns[i + 1:]):
                r2 = self.eval(mk_rule("should_not", d, True, rule["subs"], rule["subs"]), a)
                self.law("any", [rid, r2], [a, a])
            return rid
        single = len(rule["subs"]) == 1 and len(rule["objs"]) == 1
        if v in ("should", "should_not") and not x:
            r2 = self.eval(mk_rule(v, od, False, rule["objs"], rule["subs"]), a)
            self.law("dual", [rid, r2], [a, a])
        if v == "should" and single:
            r2 = self.eval(mk_rule("should_not", d, x, rule["subs"], rule["objs"]), a)
            self.law("neg", [rid, r2], [a, a])
        if v == "should_only":
            r2 = self.eval(mk_rule("should", d, x, rule["subs"], rule["objs"]), a)
            r3 = self.eval(mk_rule("should_not", d, not x, rule["subs"], rule["objs"]), a)
            self.law("decomp", [rid, r2, r3], [a, a, a])
        if len(rule["subs"]) > 1:
            rids = [rid] + [self.eval(mk_rule(v, d, x, [s], rule["objs"]), a) for s in rule["subs"]]
            self.law("batchsub", rids, [a] * len(rids))
        if len(rule["objs"]) > 1 and not x and v in ("should", "should_not"):
            rids = [rid] + [self.eval(mk_rule(v, d, x, rule["subs"], [o]), a) for o in rule["objs"]]
            self.law("batchobj", rids, [a] * len(rids))
        return rid

    def mono(self, rule, a, a2):
        r1 = self.eval(rule, a)
        r2 = self.eval(rule, a2)
        # the same rid string may differ per arch; the law names both
        self.law("mono", [r1, r2], [a, a2])
