"""Module names: component tuples in /verif, dotted strings only at the boundary to the real code."""
from __future__ import annotations


def dotted(name) -> str:
    return ".".join(name)


def comps(s: str) -> list:
    return s.split(".")


def parents(name):
    name = tuple(name)
    return [name[:i] for i in range(1, len(name))]


def anc(a, b) -> bool:
    a, b = tuple(a), tuple(b)
    return len(a) <= len(b) and b[: len(a)] == a


def related(a, b) -> bool:
    return anc(a, b) or anc(b, a)


class Renaming:
    """Injective renaming of path components (C14).  Unknown components are given fresh names in order of
    first use, so the same abstract world is rendered identically every time."""

    def __init__(self, pool):
        self.pool = list(pool)
        self.fwd: dict = {}
        self.bwd: dict = {}

    def comp(self, c: str) -> str:
        if c not in self.fwd:
            i = len(self.fwd)
            n = self.pool[i] if i < len(self.pool) else f"{self.pool[i % len(self.pool)]}q{i // len(self.pool)}"
            assert n not in self.bwd, "renaming must stay injective"
            self.fwd[c] = n
            self.bwd[n] = c
        return self.fwd[c]

    def name(self, name) -> str:
        return ".".join(self.comp(c) for c in name)

    def back(self, s: str) -> list:
        return [self.bwd[c] for c in s.split(".")]


IDENT = None  # identity rendering: components are used as they are


def rho_clean() -> Renaming:
    return Renaming(["alpha", "bravo", "charlie", "delta", "echo", "foxtrot", "golf", "hotel", "india", "juliet",
                     "kilo", "lima", "mike", "november", "oscar", "papa", "quebec", "romeo", "sierra", "tango"])


def rho_adversarial() -> Renaming:
    # a chain: every name is a string prefix (and substring) of every later one, so ANY two siblings of a world are
    # prefix-related after renaming ("a.ab" / "a.ab_"), whatever the shape of the tree
    chain = ["a", "ab", "ab_", "ab_c", "ab_c1", "ab_c1a", "ab_c1ab", "ab_c1ab_", "ab_c1ab_x", "ab_c1ab_x2"]
    chain += [chain[-1] + "y" * i for i in range(1, 30)]
    return Renaming(chain)


def rho_adversarial2() -> Renaming:
    # substrings, suffixes and prefixes of one another, not a chain
    return Renaming(["a", "xa", "a_b", "aa", "a1", "b", "ba", "abc", "a_", "aab", "b_a", "bab", "a1a", "ab_", "aaa",
                     "b1", "bb", "a_b_", "ab1", "aba", "xab", "ab"])


def rho_adversarial3() -> Renaming:
    # look-alikes of dotted names: 'p.a.b' next to 'p.a_b' / 'p.axb' (a dot read as a wildcard matches them)
    return Renaming(["p", "a", "b", "c", "a_b", "a_c", "axb", "b_c", "a_b_c", "axc", "bxc", "d", "a_d", "axd", "b_d",
                     "e", "a_e", "f", "a_f", "g", "a_g", "h", "a_h", "i", "a_i", "j", "a_j", "k", "a_k", "l", "a_l"])


def rho_adversarial4() -> Renaming:
    # file names that are no identifiers: characters that sort BEFORE the dot ('+' '-'), so that a sibling
    # 'p.api-x' stands between 'p.api' and 'p.api.v1' in every sorted listing of the names
    return Renaming(["p", "api", "api-x", "api+", "b", "b-", "b-1", "api-x-y", "c", "c+d", "c-", "api--", "b+b", "d", "d-d",
                     "d-", "e", "e-1", "e+", "f", "f-", "g", "g-g", "h", "h-", "i", "i-", "j", "j-", "k", "k-"])


def rho_case() -> Renaming:
    # names that differ only in the case of their letters (a / A / aA ...): identity is case-sensitive
    return Renaming(["a", "A", "aA", "Aa", "b", "B", "ab", "aB", "Ab", "AB", "c", "C", "m", "M", "mod", "Mod", "MOD", "x",
                     "X", "xy", "xY", "Xy", "XY", "d", "D", "e", "E", "f", "F", "g", "G"])
