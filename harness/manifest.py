"""Writes /verif/MANIFEST.json from the table below (python -m harness.manifest)."""
from __future__ import annotations

import json
import os

ROOT = os.path.dirname(os.path.dirname(os.path.abspath(__file__)))

COMMON_NOTE = ("Trusted base: TLC 1.8 and the TLA+ modules under /verif/spec; the harness renderers that turn abstract "
               "inputs into real objects/files and project results back (each with a self-check); /venv's Python. "
               "Conformance is bounded by the worlds replayed and the traces validated; see DESIGN.md section 5.")

CHECKS = {
    "C01": dict(
        technique="TLA+ specification (RuleSem) model-checked with TLC; TLC-emitted states replayed into the real "
                  "code and traces of real evaluations validated against the specification with TLC",
        text="The documented rule semantics are an explicit TLA+ operator (RuleSem!Outcome). TLC checks on every "
             "import relation of a bounded world that it equals the documentation's table, then every state TLC "
             "emits is replayed into real Rule objects with the full single-subject/object rule space and every "
             "evaluation (plus seeded random larger worlds with batches) is validated event by event against the "
             "specification. Worlds shaped like scanned trees (every package has an __init__ module) are included. 'Sub modules of P' are P's strict descendants in both directions (an import between one of them "
             "and P itself is an import of/by something else - no don't-care corner is left in the oracle). Architectures' "
             "own hierarchy edges are observed and must be the parent/child relation of the names. Exhaustive for the "
             "bounded worlds, sampling judged by the model beyond.",
        design_ref="6 (C01), 14"),
    "C03": dict(
        technique="TLA+ specification (RuleSem!Realised/MissingEdge/MissingOther) with TLC; messages of real failing "
                  "evaluations and the three graph queries parsed and validated as sets against the specification",
        text="Every failing evaluation's message is parsed with a grammar written from LANGUAGE_DEFINTION.md into the "
             "sets of reported imports and missing-import lines; the trace specification compares them, in both "
             "directions of inclusion, with the violating sets the specification derives, for every import relation "
             "of a bounded world x the full single rule space and for seeded random larger worlds with batches; the "
             "get_dependencies / any_dependencies... queries are validated directly against EdgeSet/OtherSet (strictly, also "
             "for imports between 'sub modules of P' and P itself).",
        design_ref="6 (C03)"),
    "C11": dict(
        technique="TLA+ trace specification with TLC: compact (regex / partial-name / batch) and expanded rules are "
                  "evaluated on the real code and related by law events; conjunction laws model-checked on RuleSem",
        text="Batch = conjunction is an invariant of the specification over every import relation of the bounded "
             "world (TLC). On the real code each compact rule and its expansion (match set computed with re.match) are "
             "both evaluated and the trace specification requires equal verdicts and messages, an error for empty "
             "matches, and the conjunction laws on the recorded verdicts; worlds with dot look-alikes (p.a.b next to p.a_b) "
             "bind the literal reading of dots in partial names.",
        design_ref="6 (C11)"),
    "C12": dict(
        technique="TLAPS proofs of the rule algebra for arbitrary graphs (spec/Laws.tla, 179 obligations) bound to "
                  "RuleSem by a TLC-checked agreement invariant; TLC model checking of the law invariants and the "
                  "monotonicity action property on RuleSem; the model's transition graph replayed into the real code; "
                  "laws evaluated by TLC on recorded real verdicts",
        text="Duality, negation, decomposition, monotonicity and the should-not batch law are proved with the TLA+ proof "
             "system for arbitrary denotations, import relations and rules (Laws.tla); the same laws plus the anything "
             "alias and batch conjunction are INVARIANTs / a [][..]_vars PROPERTY checked by TLC on every state and "
             "transition of the bounded model for the whole rule space (related modules included). Every state and "
             "single-edge addition TLC emits is replayed into real architectures (also rendered with adversarial names); "
             "the trace specification re-derives which evaluated rules are partners and checks each law on the verdicts "
             "the real code returned.",
        design_ref="6 (C12), 13.3"),
    "C13": dict(
        technique="TLA+ builder automata (Builders.tla) explored by TLC with a history variable, and closed under histories "
                  "of any length with VIEW = automaton state; every emitted call history, every state and every transition "
                  "of the closed automata replayed on fresh real objects and validated call by call against the automata "
                  "with TLC",
        text="Rule, LayerRule and DiagramRule are automata with one action per fluent call; TLC enumerates every call "
             "history up to a bound (plus tlc -simulate behaviours of length 7 and every deletion / duplication / "
             "transposition of every complete chain), each is replayed on the real classes and closed with "
             "assert_applies on four architectures; the trace specification requires an error wherever the automaton "
             "classifies the state incomplete or contradictory and at every rejected call. Misspelt / too-deep names on "
             "random architectures and on level-limited scans, badly tagged diagram files (no tags, start only, end only, "
             "reversed), all well-shaped LayerRule chains and their single-call mutations, diagrams naming a component that is no module (on "
             "architectures that also violate the rest of the diagram) and all 64 entry-point option combinations are "
             "validated the same way (unknown names also batched with existing modules, their own parent included). With VIEW = automaton state TLC finds every reachable state of the three automata "
             "(model-level invariants then hold for histories of any length); every state is replayed by a shortest "
             "history and every transition as 'shortest history + one call', once on a fresh object and once on an object "
             "that was evaluated in the state before the call.",
        design_ref="6 (C13), 13.3"),
    "C16": dict(
        technique="TLA+ builder automata (Builders!ArchStep, LRuleStep) model-checked with TLC (well-formedness "
                  "invariants) and every emitted call history replayed on the real builders, observed definition "
                  "compared after each call by the trace specification",
        text="TLC checks on all call histories up to the bound that the LayeredArchitecture automaton only reaches "
             "well-formed definitions that list exactly what accepted calls supplied; every history (string and list "
             "forms, duplicates forced by two layer names and two module names) is replayed on real objects, each "
             "call's accept/reject outcome and the definition shown by architecture[layer] / str() are validated step "
             "by step; a second vocabulary (three layers, three modules, alternating layer / module calls, all 11 113 "
             "histories up to six calls, plus a name that differs from another by a trailing blank only) covers guards that "
             "must look at every earlier layer; LayerRule histories likewise (architecture first, exactly one subject "
             "layer), plus all well-shaped chains (every verb x access kind x object layer list); after every LayerRule call "
             "and evaluation the definition of the architecture it is based on is observed and must be unchanged; "
             "architecture.layer_mapping is a third view of the definition that must agree with [] and str(). Every state "
             "and every transition of the complete LayeredArchitecture and LayerRule automata (TLC with VIEW = automaton "
             "state: histories of any length) is replayed as well.",
        design_ref="6 (C16)"),
    "C05": dict(
        technique="TLA+ specification of layer semantics (LayerSem.tla) model-checked with TLC, its structural laws "
                  "proved with TLAPS for arbitrary layer denotations (LayerLaws.tla, bound by a TLC-checked agreement "
                  "invariant); TLC-emitted states "
                  "replayed into real LayeredArchitecture/LayerRule objects and validated by Trace_Layers.tla",
        text="Layer semantics (one unit per layer, same-layer imports never count, unmentioned layers = no layer) are "
             "TLA+ operators; TLC checks on every import relation of a bounded world that dropping unmentioned layers and "
             "adding intra-layer imports never changes an outcome and that singleton layers reduce to module rules. Every "
             "emitted state is replayed with all 12 shapes + aliases x 1-2 object layers for name/regex/mixed definitions, "
             "plus seeded random worlds whose layers list unrelated modules at any depth (a layer may repeat a module by one of "
             "its own descendants); verdict, message lines and layer tags are validated by the trace specification. Sessions "
             "with two module trees bind a pattern-defined layer to the architecture a rule is applied to; the layer rules the "
             "repository's own suite evaluates (189, recorded by a pytest plugin that wraps LayerRule from outside) are "
             "validated by the same trace specification.",
        design_ref="6 (C05)"),
    "C06": dict(
        technique="TLA+ abstract syntax of the documented PlantUML subset (DiagramSem.tla); TLC enumerates diagrams "
                  "line by line, each is rendered to text, parsed by the real PumlParser and validated by Trace_Diagram",
        text="A diagram is a sequence of abstract lines (declaration / reference / arrow forms, aliases, noise); its "
             "components and dependor->dependee relation are TLA+ operators, checked by TLC to be independent of line "
             "order. Every documented diagram of up to two lines over the model's alphabet (simple and dotted names) "
             "and seeded random diagrams of 2-6 components with mixed forms, alias/name references and text outside the "
             "tags are rendered, parsed by the real code, and compared by the trace specification; a file that lacks a tag "
             "(none, start only, end only, end before start - DiagramSem!WellTagged) must "
             "raise a parsing error. Component names that begin with words of the PlantUML language and files saved with "
             "CR LF line ends are part of the inputs. The concrete syntax lives in a trusted, self-checked renderer.",
        design_ref="6 (C06)"),
    "C07": dict(
        technique="TLC checks on a bounded model that pairwise conformance equals the conjunction of the generated "
                  "RuleSem rules; emitted states and random worlds evaluated by the real DiagramRule and validated by "
                  "Trace_Diagram.tla",
        text="DiagramSem!Conforms states the pairwise reading of C07; TLC proves on every import relation of the bounded "
             "world that it coincides with the conjunction of the generated rules (whose aggregated message is the union "
             "of their lines). Real DiagramRule evaluations (both modes, both naming options, bystanders and sub modules) "
             "on emitted states and seeded random worlds are validated for verdict and complete aggregated message; components "
             "with dotted names two or three levels below a base module, in trees where a package contains a sub package of "
             "its own name, bind with_base_module(p) to 'p.<component>'; one DiagramRule object is re-targeted between twin "
             "packages with with_base_module and must behave like a fresh rule each time.",
        design_ref="6 (C07)"),
    "C02": dict(
        technique="TLA+ specification of import resolution (Scan!Named / MustImports / MayImports) in which a statement's "
                  "position does not occur; TLC enumerates every statement-list position of the running interpreter's "
                  "grammar x import form x source layout (MC_Positions) and every project of a bounded model (MC_Scan); each is rendered "
                  "to real source files, scanned by the real entry point and validated by Trace_Scan.tla",
        text="What an import statement names (plain, aliased, multi-name, from-name, from-submodule, star, relative levels, "
             "inside __init__) is a TLA+ operator; TLC checks position-independence and the one-statement-adds-exactly-its-"
             "edges law on the model. Every stack of statement-list slots up to the tier's depth (slots enumerated from "
             "ast.<Class>.__doc__) x 9 forms is rendered into source (re-parsed and cross-checked with ast.walk), scanned "
             "with get_evaluable_architecture and the import set compared as must <= observed <= may; each placement "
             "imports its own target so a lost edge names its position. The statement's layout in the source text is a third "
             "dimension of the model (own line / behind a semicolon / on the header line of its compound statement / "
             "parenthesised over several lines / backslash continuation); files in which no import starts a physical line are "
             "kept apart. Seeded random projects add mixed forms, depths, layouts and odd file names; real source trees "
             "found on this machine (the library itself, its test resources, standard-library and site-packages packages) "
             "are abstracted independently of pytestarch (os.walk + ast) and validated by the same trace specification.",
        design_ref="6 (C02)"),
    "C04": dict(
        technique="Graph.tla (construction algorithm, every processing order, TLC) bound to the real graph builder; "
                  "TLA+ specification of scanning (Scan!InternalMods, RestrictArch) with the sub-scan / restriction and "
                  "entry-point laws model-checked on MC_Scan; every emitted project and seeded random trees are written "
                  "to disk, scanned through both entry points with every module_path, validated by Trace_Scan.tla",
        text="Modules = one per non-excluded .py file and directory at or below module_path, named from root_path's "
             "directory name, plus the ancestors of module_path; TLC checks on every project of the bounded model (sibling "
             "names a/ab) that scan(sub) = scan(root) restricted to the sub tree and that parent-relative absolute names "
             "resolve in the sub scan. Each emitted project x every module_path x both entry points, and seeded random trees "
             "(depth <= 5, with and without __init__.py, prefix siblings, odd file names) are scanned by the real code; "
             "module set, import set, the restrict law, the entry-point law and 'sub modules of' verdicts are validated; "
             "likewise for real source trees found on this machine (abstracted with os.walk + ast, harness/wild.py). The "
             "architecture's own hierarchy edges are observed and must be the parent/child relation of the names; a root "
             "directory reached through a symbolic link named differently from its target is part of the inputs. Graph.tla "
             "models the construction of the architecture from the module and import lists as an algorithm (one action per "
             "list element, every processing order explored by TLC) and is bound to the real graph builder by replay and "
             "trace validation (Trace_Graph).",
        design_ref="6 (C04)"),
    "C08": dict(
        technique="TLA+ glob semantics (Glob!GlobMatch, character level) model-checked and compared exhaustively with "
                  "the real converter + re.match; exclusion semantics (Scan!Visible) with the filtered-vs-unfiltered law "
                  "model-checked on MC_Scan; real scans with and without each exclusion validated by Trace_Scan.tla, "
                  "which matches the patterns itself on the path strings the code sees",
        text="GlobMatch is checked by TLC against its statement by decomposition for every pattern over a small alphabet "
             "(incl. '.', '*', and '$' in the thorough tier) up to length 5-6 x every subject up to length 4, and the match "
             "set TLC prints per pattern is compared with re.match(convert_partial_match_to_regex(p), s) and FileFilter. "
             "Bounded-model projects x every entry x six pattern shapes (and independently translated regex_exclusions, "
             "pattern pairs, literal-text regexes, module_path below the root) and seeded random trees with "
             "regex-metacharacter names are scanned with and without the exclusion (also with externals included: an "
             "excluded module that a remaining file imports must stay away); modules, imports and the 'exactly the "
             "matching sub trees disappear' law are validated - also on real source trees found on this machine.",
        design_ref="6 (C08)"),
    "C09": dict(
        technique="Graph!QuotientOfUnlimited (limit applied during construction, every processing order, TLC) bound to the real "
                  "graph builder; Scan!Quotient; TLC proves on MC_Scan that the quotient preserves the verdict of every strict rule above "
                  "the limit (and refutes the unrestricted law); pairs of real scans (level_limit None vs k) and the "
                  "verdicts of rules on both are related by law events validated by Trace_Scan.tla",
        text="The level-limited architecture must equal the unlimited one with every name truncated to len(module_path)+k "
             "components (imports: images of imports, self-imports dropped). Every bounded-model project and seeded "
             "random projects are scanned with k in 1..depth (and beyond) at module_path equal to and below the root, with "
             "and without externals and exclusions (also imports of excluded modules); the trace specification checks the limited scan against the quotient of the unlimited "
             "scan and that strict rules whose names lie above the limit have the same verdict on both; directory names with "
             "non-word characters and real source trees found on this machine are part of the inputs. The hierarchy edges of "
             "the limited architecture are observed too. Graph.tla applies the limit while building, as the code does: TLC "
             "checks in every processing order that the limited build is the quotient of the unlimited one, and the real "
             "builder is compared with it (replay + Trace_Graph).",
        design_ref="6 (C09)"),
    "C10": dict(
        technique="Scan!ExternalMods / ExternalImports / InternalPart with the internal-part law model-checked on MC_Scan; "
                  "real scans under exclude / include / glob and regex external exclusions validated by Trace_Scan.tla "
                  "(external patterns matched by TLC on the dotted names)",
        text="External = named by an import statement and outside module_path's name space; with externals included each "
             "retained external and its ancestors are modules and the import exists, retained = neither it nor an "
             "ancestor matches an external pattern. Bounded-model projects decorated with nested and look-alike external "
             "imports and seeded random projects are scanned under all option sets (patterns that textually match "
             "internal names included); every scan is compared with the specification and with the default scan through "
             "the law that the part at or below module_path is identical; real source trees found on this machine (with their "
             "real external imports, and patterns built from those) are scanned the same way.",
        design_ref="6 (C10)"),
    "C14": dict(
        technique="TLA+ names are component sequences compared only by equality/IsPrefix; TLC checks that RuleSem "
                  "commutes with injective renamings on the bounded model; on the real code every abstract case is "
                  "evaluated under a collision-free and two adversarial renamings and related by 'rename' law events "
                  "validated by Trace_Rules / Trace_Layers / Trace_Labels",
        text="The specification has no dotted strings, so invariance under injective component renaming holds by "
             "construction and is model-checked as RuleSem!RenamingInvariant for the chain renaming the harness uses. "
             "Module rules (all import relations of the bounded world and seeded random worlds with batches), layer "
             "rules with name-defined and mixed name/regex-defined layers and visualize() alias maps are each run on the real code under the "
             "renamings clean / adv (every name a string prefix of the next) / adv2 (substrings and suffixes); the trace "
             "specification requires equal verdicts, message sets, layer tags and label sources after mapping names "
             "back, and the specification's own outcome for each rendering.",
        design_ref="6 (C14)"),
    "C15": dict(
        technique="TLA+ state machine of the whole library (Session.tla: New / Apply / Grow over module, layer and "
                  "diagram rules, Visualize, the three graph Queries) model-checked with TLC (Pure, ObjectStable, "
                  "Functional, Reapply, RulesReportQueries, VizTotal); tlc -simulate "
                  "histories replayed on real objects sharing real architectures and validated by the trace "
                  "specifications; 'same' law events for permuted arguments / re-scans; traces compared across hash seeds",
        text="Session.tla makes the outcome of Apply a function of <<configuration, architecture>> and Apply a no-op on "
             "architectures and on the rule object's configuration; TLC checks this on all short histories. Histories of "
             "40 calls generated by tlc -simulate interleave module rules, layer rules, diagram rules, visualize() calls and "
             "graph queries on shared "
             "evaluables with rule objects re-applied to several architectures; every Apply is also evaluated in "
             "isolation and must give the same verdict and message, and every step leaves all architectures unchanged. "
             "Permuted / duplicated subject, object, layer and exclusion lists, shuffled directory enumeration and re-scans "
             "are related by 'same' laws; the same rules, layer rules, visualize calls and scans are run in two orders "
             "and compared call by call; graph construction is compared between shuffled listings of the same modules "
             "and imports - and through Graph.tla, in which TLC explores EVERY processing order of the module and import "
             "lists against an order-free result, the real builder being compared with it in several orders; layer rules "
             "are evaluated with every list argument reversed; and a mixed bag of episodes is run in fresh interpreters under 8 PYTHONHASHSEED values whose "
             "traces must be identical. Trees in which a directory is a symbolic link to another one, trees with a module file "
             "next to a package of the same name (compared with each other only), and real source trees "
             "found on this machine, are re-scanned under shuffled enumeration.",
        design_ref="6 (C15)"),
    "C17": dict(
        technique="TLA+ specification of plot labels (Labels.tla) model-checked with TLC over all alias maps of a "
                  "bounded module tree; every emitted alias map replayed into real visualize() calls observed at the "
                  "intercepted drawing backend and validated by Trace_Labels.tla",
        text="Labels!LabelSource decides which aliased module heads a module's label (nearest aliased ancestor-or-self "
             "by whole components). TLC checks totality, nearest-ancestor, locality of a new alias over all alias maps "
             "of the bounded tree (including aliases of non-existing modules). Each emitted map and seeded random "
             "trees/maps (nested aliases, alias texts with dots and regex metacharacters, aliases equal to the module's own "
             "name, spacing option, random drawing "
             "options) are passed to the real visualize(); the keyword arguments received by the drawing backend are "
             "validated: every module labelled exactly once with the specified label, unknown aliased module rejected "
             "naming it, other options unchanged; each call repeated under collision-free and adversarial renamings, on "
             "level-limited architectures (aliases for modules below the limit name no module), on shuffled module "
             "listings with implicit parent packages, with file names that sort before the dot ('api-x' next to 'api') and "
             "with several top-level packages.",
        design_ref="6 (C17)"),
}

PENDING = {}


def main():
    checks = []
    for pid, c in sorted(CHECKS.items()):
        checks.append({
            "property_id": pid,
            "quick_cmd": f"./check {pid} --tier quick",
            "thorough_cmd": f"./check {pid} --tier thorough",
            "evidence_file": f"/verif/evidence/{pid}.json",
            "replay_cmd_template": f"./check {pid} --replay {{path}}",
            "engine": "tlc-spec-conformance",
            "level_claimed": {"category": "model_checking", "text": c["text"], "design_ref": c["design_ref"]},
            "level_note": c.get("note", COMMON_NOTE),
            "technique": c["technique"],
        })
    all_ids = [f"C{i:02d}" for i in range(1, 18)]
    na = [{"property_id": p, "reason": PENDING.get(p, "check not built yet in this round (planned, see DESIGN.md section 12)")}
          for p in all_ids if p not in CHECKS]
    m = {
        "version": 1,
        "setup_cmd": "./setup.sh",
        "hooks": {"guard": "PYTESTARCH_VERIF_TRACE",
                  "enable": "no source hooks in /repo: all observation is through the public API from /verif "
                            "harness processes. PYTESTARCH_VERIF_TRACE=<file> together with `-p harness.pytest_plugin` "
                            "(PYTHONPATH=/verif) makes /verif's pytest plugin wrap Rule.assert_applies from outside, in "
                            "that pytest process only, and write the repository suite's rule evaluations and scans as traces; "
                            "`-p harness.pytest_plugin_layers` does the same for LayerRule.are_named / assert_applies",
                  "baseline_off_cmd": "cd /repo && /venv/bin/python -m pytest -q -p no:cacheprovider --timeout=900",
                  "source_commits": [], "add_only": True},
        "engines": [{"name": "tlc-spec-conformance", "path": "/verif/check",
                     "serves_properties": sorted(CHECKS),
                     "kind_free_text": "explicit TLA+ specification under /verif/spec, model-checked with TLC; "
                                       "TLC-generated states/behaviours replayed into the real code and ndjson "
                                       "traces of the real code validated by Trace_*.tla"}],
        "checks": checks,
        "not_applicable": na,
        "notes": "See DESIGN.md. ./check <id> --selftest demonstrates the binding (corrupted traces are rejected).",
    }
    with open(os.path.join(ROOT, "MANIFEST.json"), "w") as f:
        json.dump(m, f, indent=1)
        f.write("\n")


if __name__ == "__main__":
    main()
