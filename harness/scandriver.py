"""Scan episodes: a project is written to disk and scanned by the real entry points under several configurations.

spec: {"driver":"scan","project":{root,dirs,files,stmts},
       "items":[{"op":"scan","id":"S0","mpath":[..],"limit":null|k (level_limit k, k >= 0),"ext":false,"entry":"path"|"module",
                 "excl":{"kind":"none"|"glob"|"regex","patterns":[str]},
                 "extexcl":{"kind":"none"|"glob"|"regex","patterns":[str]},"shuffle":int|null},
                {"op":"seval","scan":"S0","rid":"R1","rule":{..}},
                {"op":"law","law":"restrict|entry|excl|quotient|internal|same|verdict","scans":[..],"rid":..}]}
"""
from __future__ import annotations

import os
import random
import re
import shutil
import tempfile
import types
from pathlib import Path
from unittest import mock

from harness import project as pj
from harness.rulesapi import evaluate
from harness.world import observe


def chars(s):
    return list(s)


def _candidate_external_names(proj, mpath):
    """Superset of every dotted name (as component list) an import statement of the project may resolve to, with all
    ancestors - the subjects external-exclusion patterns are matched against (matching itself is done by TLC)."""
    out = set()
    prefix = list(mpath[:-1]) if len(mpath) > 1 else []
    for s in proj["stmts"]:
        bases = []
        if s["level"] == 0:
            bases.append(list(s["module"]))
            if prefix:
                bases.append(prefix + list(s["module"]))
        else:
            bases.append(list(s["file"][:len(s["file"]) - s["level"]]) + list(s["module"]))
        for b in bases:
            cands = [b] + [b + [n] for n in s["names"] if n != "*"]
            for c in cands:
                for i in range(1, len(c) + 1):
                    out.add(tuple(c[:i]))
    return sorted(out)


def option_logs(listed, base, mpath, excl, extexcl, ext):
    """What Trace_Scan needs to know about the exclusion options of one scan: for glob patterns the patterns and the
    subjects (path strings of every entry at or below mpath / dotted candidate external names) as character sequences
    - TLC does the matching; for regular expressions the entries matched with re.match."""
    subjects = []
    for d in listed["dirs"]:
        if d[:len(mpath)] == mpath:
            subjects.append({"name": d, "chars": chars(pj.path_of(base, d))})
    for f in listed["files"]:
        if f["name"][:len(mpath)] == mpath:
            subjects.append({"name": f["name"], "chars": chars(pj.path_of(base, f["name"], f["py"]))})
    ex_log = {"kind": excl["kind"], "patterns": [chars(p) for p in excl["patterns"]] if excl["kind"] == "glob" else [],
              "subjects": subjects if excl["kind"] == "glob" else [], "matched": []}
    if excl["kind"] == "regex":
        ex_log["matched"] = [s["name"] for s in subjects
                             if any(re.match(p, "".join(s["chars"])) for p in excl["patterns"])]
    ext_names = _candidate_external_names(listed, mpath) if ext else []
    ext_subjects = [{"name": list(n), "chars": chars(".".join(n))} for n in ext_names]
    xx_log = {"kind": extexcl["kind"],
              "patterns": [chars(p) for p in extexcl["patterns"]] if extexcl["kind"] == "glob" else [],
              "subjects": ext_subjects if extexcl["kind"] == "glob" else [], "matched": []}
    if extexcl["kind"] == "regex":
        xx_log["matched"] = [s["name"] for s in ext_subjects
                             if any(re.match(p, "".join(s["chars"])) for p in extexcl["patterns"])]
    return ex_log, xx_log


def run_episode(spec, uid="E"):
    from pytestarch import get_evaluable_architecture, get_evaluable_architecture_for_module_objects

    proj = spec["project"]
    base = tempfile.mkdtemp(prefix="verif-scan-", dir="/dev/shm" if os.path.isdir("/dev/shm") else None)
    events, archs = [], {}
    try:
        if proj.get("wild"):          # a real source tree, copied and abstracted independently of pytestarch
            from harness import wild
            listed = wild.materialise(proj, base)
        else:
            listed = pj.materialise(proj, base)
        events.append({"k": "proj", "id": uid, "first": True, **listed})
        root_path = os.path.join(base, proj["root"])
        if proj.get("root_via_link"):
            # the root directory is reached through a symbolic link whose name differs from its target's name (a
            # package checked out as 'store/r_target' and linked into the path as 'r'): modules are named after the
            # directory name the caller GAVE.  Only used by episodes without file exclusions.
            os.makedirs(os.path.join(base, "_store"))
            os.rename(root_path, os.path.join(base, "_store", proj["root"] + "_target"))
            os.symlink(os.path.join(base, "_store", proj["root"] + "_target"), root_path)
        for it in spec["items"]:
            op = it["op"]
            if op == "scan":
                mpath = list(it["mpath"])
                module_path = pj.path_of(base, mpath)
                kw = {}
                def subst(o):
                    # "{BASE}" in a pattern stands for the scratch directory; "from_glob" regexes are translated from
                    # the glob text here (independently of pytestarch's converter)
                    o = dict(o or {"kind": "none", "patterns": []})
                    pats = [p.replace("{BASE}", base) for p in o.get("patterns", [])]
                    if o["kind"] == "regex" and o.get("from_glob"):
                        from harness.globs import to_regex
                        pats = [to_regex(p) for p in pats]
                    if o["kind"] == "regex" and o.get("escape"):      # literal text used as a regular expression
                        pats = [re.escape(p) for p in pats]
                    if o["kind"] == "regex" and o.get("join") and len(pats) > 1 and not any(p.startswith("(?") for p in pats):
                        # several regular expressions written as ONE with a top-level alternation: the same match set
                        pats = ["|".join(pats)]
                    o["patterns"] = pats
                    return o

                excl, extexcl = subst(it.get("excl")), subst(it.get("extexcl"))
                if excl["kind"] == "glob":
                    kw["exclusions"] = tuple(excl["patterns"])
                elif excl["kind"] == "regex":
                    kw["exclusions"] = ()
                    kw["regex_exclusions"] = tuple(excl["patterns"])
                if it.get("ext"):
                    kw["exclude_external_libraries"] = False
                if extexcl["kind"] == "glob":
                    kw["external_exclusions"] = tuple(extexcl["patterns"])
                elif extexcl["kind"] == "regex":
                    kw["regex_external_exclusions"] = tuple(extexcl["patterns"])
                if it.get("limit") is not None:
                    kw["level_limit"] = it["limit"]
                ex_log, xx_log = option_logs(listed, base, mpath, excl, extexcl, bool(it.get("ext")))
                out, err, obs = "ok", "", {"modules": [], "imports": []}
                real_iterdir = Path.iterdir

                def shuffled(self, _seed=it.get("shuffle")):
                    entries = sorted(real_iterdir(self))
                    random.Random(f"{_seed}{self}").shuffle(entries)
                    return iter(entries)

                try:
                    with (mock.patch.object(Path, "iterdir", shuffled) if it.get("shuffle") is not None
                          else mock.patch.object(Path, "iterdir", real_iterdir)):
                        if it.get("entry", "path") == "module":
                            # the entry point is given module OBJECTS: what counts is where their files are, not under
                            # which name they happen to have been imported (a package below the root may have been
                            # imported as a top-level package through its parent directory on sys.path)
                            how = it.get("modname", "qualified")
                            rm = types.ModuleType(proj["root"])
                            rm.__file__ = os.path.join(root_path, "__init__.py")
                            mm = types.ModuleType(".".join(mpath) if how == "qualified" else mpath[-1] if how == "last"
                                                  else "some_alias")
                            mm.__file__ = os.path.join(module_path, "__init__.py")
                            ev = get_evaluable_architecture_for_module_objects(rm, mm, **kw)
                        else:
                            ev = get_evaluable_architecture(root_path, module_path, **kw)
                    archs[it["id"]] = ev
                    obs = observe(ev)
                except AssertionError:
                    raise
                except Exception as e:  # noqa: BLE001
                    out, err = "error", f"{type(e).__name__}: {e}"[:300]
                events.append({"k": "scan", "id": it["id"], "mpath": mpath, "limit": 0 if it.get("limit") is None else it["limit"] + 1,     # Scan.tla: 0 = none, k + 1 = level_limit k
                               "ext": bool(it.get("ext")), "entry": it.get("entry", "path"), "excl": ex_log,
                               "extexcl": xx_log, "out": out, "err": err, **obs})
            elif op == "seval":
                ev = archs.get(it["scan"])
                if ev is None:
                    continue
                before = observe(ev)
                o = evaluate(it["rule"], ev)
                events.append({"k": "seval", "scan": it["scan"], "rid": it["rid"],
                               "rule": {**it["rule"], "subs": [{"kind": f["kind"], "name": f["name"]} for f in it["rule"]["subs"]],
                                        "objs": [{"kind": f["kind"], "name": f["name"]} for f in it["rule"]["objs"]]},
                               "out": o["out"], "raw": o["raw"][:500], "same": observe(ev) == before})
            elif op == "law":
                if True:
                    if it["law"] == "verdict" and not all(
                            any(e["k"] == "seval" and e["scan"] == s and e["rid"] == it["rid"] for e in events)
                            for s in it["scans"]):
                        continue
                    if not all(any(e["k"] == "scan" and e["id"] == s for e in events) for s in it["scans"]):
                        continue
                    events.append({"k": "law", "law": it["law"], "scans": it["scans"], "rid": it.get("rid", "")})
    finally:
        shutil.rmtree(base, ignore_errors=True)
    return events
