"""Trace source: the LAYER rules the repository's own test suite evaluates (DESIGN section 13.3, round 5).

Loaded only when asked for:
    cd /repo && PYTHONPATH=/verif PYTESTARCH_VERIF_TRACE=<file> python -m pytest -p harness.pytest_plugin_layers ...
It wraps LayerRule.are_named and LayerRule.assert_applies FROM OUTSIDE, in the pytest process only (a LayerRule keeps
the modules of the layers it was given, not their names, so the names are noted at the call).  Every evaluation of a
complete layer rule on a real graph-backed architecture inside the domain of LayerSem.tla is written as one `leval`
event of Trace_Layers to <file>.layers.  Nothing in /repo is changed.
"""
from __future__ import annotations

import json
import os
import re

OUT = os.environ.get("PYTESTARCH_VERIF_TRACE")
_st = {"fh": None, "named": {}, "archs": {}, "n": 0, "events": 0, "skipped": {}}


def _emit(ev):
    if _st["fh"] is None:
        _st["fh"] = open(OUT + ".layers", "w")
    _st["fh"].write(json.dumps(ev, separators=(",", ":")) + "\n")
    _st["fh"].flush()
    _st["events"] += 1


def _skip(why):
    _st["skipped"][why] = _st["skipped"].get(why, 0) + 1


def _related(a, b):
    n = min(len(a), len(b))
    return list(a[:n]) == list(b[:n])


def _install():
    from pytestarch.query_language.layered_architecture_rule import LayerRule

    from harness.msgparse import parse_layer_message
    from harness.pytest_plugin import _in_domain, _observe

    orig_named, orig_apply = LayerRule.are_named, LayerRule.assert_applies

    def are_named(self, layers):
        r = orig_named(self, layers)                 # a rejected call raises and is not noted
        _st["named"].setdefault(id(self), (self, []))[1].append(list(layers) if isinstance(layers, list) else [layers])
        return r

    def assert_applies(self, evaluable):
        rec = _st["named"].get(id(self))
        rule, arch = getattr(self, "_rule", None), getattr(self, "_architecture", None)
        if rec is None or rec[0] is not self or rule is None or arch is None or not hasattr(evaluable, "_graph") \
                or not hasattr(getattr(evaluable, "_graph"), "_graph"):
            _skip("not a layer rule built through are_named on a graph-backed architecture")
            return orig_apply(self, evaluable)
        cfg = rule._configuration
        verbs = [v for v, on in (("should", cfg.should), ("should_only", cfg.should_only), ("should_not", cfg.should_not)) if on]
        calls = rec[1]
        any_ = bool(cfg.rule_object_anything)
        complete = (len(verbs) == 1 and cfg.import_ is not None and len(calls) >= 1 and len(calls[0]) == 1
                    and (any_ or len(calls) >= 2) and (not any_ or verbs == ["should_not"]))
        if not complete:
            _skip("incomplete or contradictory layer rule")
            return orig_apply(self, evaluable)
        before = _observe(evaluable)
        if not _in_domain(before):
            _skip("architecture outside the domain (not tree-closed, or an import parent -> direct child)")
            return orig_apply(self, evaluable)
        mods = before["modules"]
        layers = []
        for name, filters in arch._modules_by_layer_name.items():
            if any(f.identifier_is_regex for f in filters):
                listed = [m for m in mods if any(re.match(f.identifier, ".".join(m)) for f in filters if f.identifier_is_regex)]
                listed += [f.identifier.split(".") for f in filters if not f.identifier_is_regex]
                kind = "regex"
            else:
                listed, kind = [f.identifier.split(".") for f in filters], "names"
            layers.append({"name": name, "kind": kind, "listed": listed})
        sub = calls[0][0]
        objs = [] if any_ else sorted({n for c in calls[1:] for n in c})
        byname = {l["name"]: l for l in layers}
        mentioned = [sub] + objs
        # the domain of LayerSem (LRuleWF / LayersWF of the mentioned layers): decided here so that a rule outside it is
        # counted as skipped instead of stopping the validation
        if sub not in byname or any(o not in byname for o in objs) or (not any_ and (not objs or sub in objs)):
            _skip("rule outside the domain (undefined layer, or subject among the objects)")
            return orig_apply(self, evaluable)
        modset = {tuple(m) for m in mods}
        nomatch = any(not byname[n]["listed"] for n in mentioned)
        if not nomatch:
            if any(tuple(m) not in modset for n in mentioned for m in byname[n]["listed"]) or any(
                    _related(m1, m2) for i, n1 in enumerate(mentioned) for n2 in mentioned[i + 1:]
                    for m1 in byname[n1]["listed"] for m2 in byname[n2]["listed"]):
                _skip("layers outside the domain (a listed module that does not exist, or related modules in two layers)")
                return orig_apply(self, evaluable)
        aid = _st["archs"].get(id(evaluable))
        if aid is None or aid[1] != before:
            aid = (f"L.A{len(_st['archs'])}", before)
            _st["archs"][id(evaluable)] = aid
            _emit({"k": "arch", "a": aid[0], "first": _st["events"] == 0, **before})
        out = {"out": "pass", "real": [], "miss": [], "bad": [], "raw": ""}
        def_before = str(arch)
        try:
            return orig_apply(self, evaluable)
        except AssertionError as e:
            msg = e.args[0] if e.args and isinstance(e.args[0], str) else str(e)
            p = parse_layer_message(msg)
            out = {"out": "fail", "real": [{"imp": x["imp"], "tags": x["tags"]} for x in p["real"]],
                   "miss": [{"other": m["other"], "sub": m["sub"], "objs": m["objs"]} for m in p["miss"]],
                   "bad": p["bad"], "raw": msg[:2000]}
            raise
        except Exception as e:  # noqa: BLE001
            out = {"out": "error", "real": [], "miss": [], "bad": [], "raw": f"{type(e).__name__}: {e}"[:300]}
            raise
        finally:
            _st["n"] += 1
            _emit({"k": "leval", "a": aid[0], "rid": f"L{_st['n']}", "layers": layers,
                   "rule": {"verb": verbs[0], "dir": "import" if cfg.import_ else "imported", "exc": bool(cfg.except_present),
                            "any": any_, "sub": sub, "objs": objs},
                   **out, "same": _observe(evaluable) == before, "def_same": str(arch) == def_before, "keep": False,
                   "test": os.environ.get("PYTEST_CURRENT_TEST", "")[:200]})

    LayerRule.are_named = are_named
    LayerRule.assert_applies = assert_applies


def pytest_configure(config):
    if OUT:
        _install()


def pytest_unconfigure(config):
    if OUT:
        if _st["fh"] is not None:
            _st["fh"].close()
        with open(OUT + ".layers.meta", "w") as f:
            json.dump({"events": _st["events"], "evaluations": _st["n"], "skipped": _st["skipped"]}, f)
