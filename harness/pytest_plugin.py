"""Trace source: the repository's own test suite (DESIGN section 3.2).

Loaded only when asked for:
    cd /repo && PYTHONPATH=/verif PYTESTARCH_VERIF_TRACE=<file.ndjson> python -m pytest -p harness.pytest_plugin ...
It wraps pytestarch.Rule.assert_applies FROM OUTSIDE, in the pytest process only: every evaluation of a plain module
rule (also the rules a DiagramRule generates) on a real graph-backed architecture is logged as one `eval` event of
Trace_Rules - configuration as it was before the call, verdict, parsed message, architecture before/after.  Nothing in
/repo is changed; without the environment variable the plugin does nothing.
"""
from __future__ import annotations

import json
import os
import re

OUT = os.environ.get("PYTESTARCH_VERIF_TRACE")
_state = {"fh": None, "archs": {}, "n": 0, "events": 0, "skipped": {}}


def _emit(ev):
    if _state["fh"] is None:
        _state["fh"] = open(OUT, "w")
    _state["fh"].write(json.dumps(ev, separators=(",", ":")) + "\n")
    _state["fh"].flush()
    _state["events"] += 1


def _skip(why):
    _state["skipped"][why] = _state["skipped"].get(why, 0) + 1


def _observe(ev):
    g = ev._graph._graph
    modules = sorted(n.split(".") for n in g.nodes)
    imports = sorted([u.split("."), v.split(".")] for u, v, d in g.edges(data=True) if not d.get("inherits"))
    return {"modules": modules, "imports": imports}


def _in_domain(obs):
    mods = {tuple(m) for m in obs["modules"]}
    if any("" in m for m in mods):
        return False
    for m in mods:                                   # tree-closed
        if any(m[:i] not in mods for i in range(1, len(m))):
            return False
    for u, v in obs["imports"]:                      # an import parent -> direct child replaces the hierarchy edge
        if len(v) == len(u) + 1 and v[:len(u)] == u:
            return False
    return True


def _filters(fs, modules):
    out = []
    for f in fs:
        if f.identifier_is_regex:
            matches = [m for m in modules if re.match(f.identifier, ".".join(m))]
            out.append({"kind": "regex", "name": ["regex"], "matches": matches})
        else:
            out.append({"kind": "sub" if f.identifier_is_parent_module else "named", "name": f.identifier.split("."),
                        "matches": []})
    return out


def _install():
    from pytestarch.query_language.rule import Rule
    from pytestarch.rule_assessment.rule_check.rule_matcher import DefaultRuleMatcher

    from harness.msgparse import parse_message

    orig = Rule.assert_applies

    def assert_applies(self, evaluable):
        cfg = self._configuration
        loggable = (self._rule_matcher_class is DefaultRuleMatcher and hasattr(evaluable, "_graph")
                    and hasattr(getattr(evaluable, "_graph"), "_graph"))
        verbs = [v for v, on in (("should", cfg.should), ("should_only", cfg.should_only), ("should_not", cfg.should_not)) if on]
        complete = (len(verbs) == 1 and cfg.import_ is not None and cfg.modules_to_check
                    and (cfg.rule_object_anything or cfg.modules_to_check_against)
                    and (not cfg.rule_object_anything or verbs == ["should_not"]))
        if not (loggable and complete):
            _skip("not a plain complete module rule on a graph-backed architecture")
            return orig(self, evaluable)
        before = _observe(evaluable)
        if not _in_domain(before):
            _skip("architecture outside the domain (not tree-closed, or an import parent -> direct child)")
            return orig(self, evaluable)
        kinds = lambda fs: {(f.identifier_is_regex, f.identifier_is_parent_module) for f in fs}
        if len(kinds(cfg.modules_to_check)) != 1 or (cfg.modules_to_check_against and len(kinds(cfg.modules_to_check_against)) != 1):
            _skip("mixed filter kinds on one side")
            return orig(self, evaluable)
        rule = {"verb": verbs[0], "dir": "import" if cfg.import_ else "imported", "exc": bool(cfg.except_present),
                "any": bool(cfg.rule_object_anything), "subs": _filters(cfg.modules_to_check, before["modules"]),
                "objs": [] if cfg.rule_object_anything else _filters(cfg.modules_to_check_against, before["modules"])}
        aid = _state["archs"].get(id(evaluable))
        if aid is None or aid[1] != before:
            aid = (f"T.A{len(_state['archs'])}", before)
            _state["archs"][id(evaluable)] = aid
            _emit({"k": "arch", "a": aid[0], "first": _state["events"] == 0, **before, "given": before})
        out = {"out": "pass", "real": [], "miss": [], "bad": [], "raw": ""}
        try:
            return orig(self, evaluable)
        except AssertionError as e:
            msg = e.args[0] if e.args and isinstance(e.args[0], str) else str(e)
            p = parse_message(msg)
            out = {"out": "fail", "real": [x["imp"] for x in p["real"]],
                   "miss": [{"other": m["other"], "sub": m["sub"], "objs": m["objs"]} for m in p["miss"]],
                   "bad": p["bad"], "raw": msg[:2000]}
            raise
        except Exception as e:  # noqa: BLE001
            out = {"out": "error", "real": [], "miss": [], "bad": [], "raw": f"{type(e).__name__}: {e}"[:300]}
            raise
        finally:
            _state["n"] += 1
            _emit({"k": "eval", "a": aid[0], "rid": f"T{_state['n']}", "rule": rule, **out,
                   "same": _observe(evaluable) == before, "keep": False,
                   "test": os.environ.get("PYTEST_CURRENT_TEST", "")[:200]})

    Rule.assert_applies = assert_applies


def _install_scans():
    """Second trace of the suite: every call of an entry point (the module-object entry point calls the path entry
    point), with the tree as it is on disk at that moment abstracted by harness/wild.py - one `proj` + one `scan`
    event of Trace_Scan per call."""
    import pytestarch
    import pytestarch.pytestarch as entry

    from harness import wild
    from harness.scandriver import option_logs

    orig = entry.get_evaluable_architecture
    fh = open(OUT + ".scans", "w")
    stats = {"scans": 0, "skipped": {}}
    _state["scan_stats"] = stats

    def skip(why):
        stats["skipped"][why] = stats["skipped"].get(why, 0) + 1

    def get_evaluable_architecture(root_path, module_path, exclusions=entry.DEFAULT_EXCLUSIONS,
                                   exclude_external_libraries=True, level_limit=None, regex_exclusions=None,
                                   external_exclusions=None, regex_external_exclusions=None):
        args = (root_path, module_path, exclusions, exclude_external_libraries, level_limit, regex_exclusions,
                external_exclusions, regex_external_exclusions)
        listed = None
        try:
            root_abs, mod_abs = os.path.abspath(str(root_path)), os.path.abspath(str(module_path))
            if str(root_path) != root_abs or str(module_path) != mod_abs:
                skip("relative or unnormalised path")
            elif not (mod_abs == root_abs or mod_abs.startswith(root_abs + os.sep)) or not os.path.isdir(mod_abs):
                skip("module_path not a directory below root_path")
            elif (exclusions and regex_exclusions) or (external_exclusions and regex_external_exclusions) or (
                    exclude_external_libraries and (external_exclusions or regex_external_exclusions)):
                skip("invalid option combination")
            else:
                listed = wild.abstract_inplace(root_abs)
        except Exception as e:  # noqa: BLE001
            skip(f"tree outside the input language: {type(e).__name__}")
            listed = None
        out, err, obs = "ok", "", {"modules": [], "imports": []}
        try:
            ev = orig(*args)
            obs = _observe(ev)
            return ev
        except Exception as e:  # noqa: BLE001
            out, err = "error", f"{type(e).__name__}: {e}"[:300]
            raise
        finally:
            if listed is not None:
                base = os.path.dirname(root_abs)
                mpath = [listed["root"]] + ([] if mod_abs == root_abs else os.path.relpath(mod_abs, root_abs).split(os.sep))
                excl = ({"kind": "glob", "patterns": list(exclusions)} if exclusions else
                        {"kind": "regex", "patterns": list(regex_exclusions)} if regex_exclusions else {"kind": "none", "patterns": []})
                extexcl = ({"kind": "glob", "patterns": list(external_exclusions)} if external_exclusions else
                           {"kind": "regex", "patterns": list(regex_external_exclusions)} if regex_external_exclusions
                           else {"kind": "none", "patterns": []})
                ext = not exclude_external_libraries
                ex_log, xx_log = option_logs(listed, base, mpath, excl, extexcl, ext)
                stats["scans"] += 1
                sid = f"T{stats['scans']}"
                fh.write(json.dumps({"k": "proj", "id": sid, "first": True, **listed}, separators=(",", ":")) + "\n")
                fh.write(json.dumps({"k": "scan", "id": sid, "mpath": mpath, "limit": 0 if level_limit is None else level_limit + 1, "ext": ext,
                                     "entry": "path", "excl": ex_log, "extexcl": xx_log, "out": out, "err": err, **obs,
                                     "test": os.environ.get("PYTEST_CURRENT_TEST", "")[:200]}, separators=(",", ":")) + "\n")
                fh.flush()

    entry.get_evaluable_architecture = get_evaluable_architecture
    pytestarch.get_evaluable_architecture = get_evaluable_architecture


def pytest_configure(config):
    if OUT:
        _install()
        _install_scans()


def pytest_unconfigure(config):
    if OUT and _state["fh"] is not None:
        _state["fh"].close()
    if OUT:
        with open(OUT + ".meta", "w") as f:
            json.dump({"events": _state["events"], "evaluations": _state["n"], "skipped": _state["skipped"],
                       "scan_stats": _state.get("scan_stats", {})}, f)
