"""Shared machinery for the builder automata (C13, C15, C16)."""
from __future__ import annotations

import json

from harness import runner, tlc, trace
from harness.result import attach

WORLDS = [{"modules": [["r"], ["r", "a"], ["r", "a", "x"], ["r", "b"], ["r", "b", "y"], ["r", "c"]], "imports": imps}
          for imps in ([],
                       [[["r", "a", "x"], ["r", "b"]]],
                       [[["r", "a", "x"], ["r", "b", "y"]], [["r", "a"], ["r", "c"]], [["r", "c"], ["r", "a", "x"]]],
                       [[["r", "b"], ["r", "a"]], [["r", "b", "y"], ["r", "c"]]])]

MC_INVARIANTS = """INVARIANT RuleStateIsHistory
INVARIANT RuleClassTotal
INVARIANT ArchAlwaysWF
INVARIANT ArchIsHistory
INVARIANT LRuleOneSubject
PROPERTY RejectedUnchanged"""


def _cfg(which, maxlen, emit):
    return tlc.write_cfg(f"""SPECIFICATION Spec
CONSTANTS
  Which = "{which}"
  MaxLen = {maxlen}
  EMIT = {"TRUE" if emit else "FALSE"}
{"INVARIANT EmitHist" if emit else MC_INVARIANTS}
CHECK_DEADLOCK FALSE
""")


def model_check(which, maxlen, workers=8):
    r = tlc.run("MC_Builders.tla", _cfg(which, maxlen, False), workers=workers, timeout=3000)
    return tlc.require_ok(r, f"model checking MC_Builders {which} <= {maxlen}")


def emit_histories(which, maxlen):
    r = tlc.run("MC_Builders.tla", _cfg(which, maxlen, True), workers=1, timeout=3000)
    tlc.require_ok(r, f"emitting histories {which} <= {maxlen}")
    hs = r.printed.get("HIST", [])
    if len(hs) != r.distinct:
        raise tlc.MachineryError(f"emitted {len(hs)} histories, TLC found {r.distinct} states")
    return [[x["c"] for x in h["hist"]] for h in hs], r


def closure(which):
    """The complete automaton, not a bounded set of histories: with VIEW ClosureView (the automaton state without the
    history) TLC stops when every reachable automaton state has been found, so the model-level invariants hold for call
    histories of any length over the vocabulary.  -> (shortest history per automaton state, every transition of the
    automaton as 'shortest history + one more call', TLC result)."""
    cfg = tlc.write_cfg(f"""SPECIFICATION Spec
CONSTANTS
  Which = "{which}"
  MaxLen = 1000
  EMIT = TRUE
VIEW ClosureView
INVARIANT EmitClosure
{MC_INVARIANTS}
CHECK_DEADLOCK FALSE
""")
    r = tlc.run("MC_Builders.tla", cfg, workers=1, timeout=3000)
    tlc.require_ok(r, f"closure of the {which} automaton")
    cs = r.printed.get("CLOS", [])
    if len(cs) != r.distinct or not cs:
        raise tlc.MachineryError(f"closure of {which}: emitted {len(cs)} states, TLC found {r.distinct}")
    states = [[x["c"] for x in c["hist"]] for c in cs]
    trans = [[x["c"] for x in c["hist"]] + [call] for c in cs for call in c["calls"]]
    if which != "arch":
        # ... and the same transitions taken by an object that has been EVALUATED in the state before the call
        trans += [[x["c"] for x in c["hist"]] + [{"m": "assert_applies"}, call] for c in cs if c["hist"] for call in c["calls"]]
    return states, trans, r


def simulate_histories(which, depth, num, seed):
    """Longer behaviours of the automaton: tlc -simulate; only maximal histories are kept."""
    r = tlc.run("MC_Builders.tla", _cfg(which, depth, True), workers=1, timeout=3000,
                simulate=f"num={num}", depth=depth + 1, seed=seed)
    if r.rc != 0 or r.errors:
        raise tlc.MachineryError("simulation failed:\n" + "\n".join(r.out.splitlines()[-20:]))
    seen, out = set(), []
    for h in r.printed.get("HIST", []):
        if len(h["hist"]) == depth:
            k = json.dumps(h["hist"], sort_keys=True)
            if k not in seen:
                seen.add(k)
                out.append([x["c"] for x in h["hist"]])
    return out, r


def specs_from(which, hists, asserts=None, show=True):
    return [{"driver": "builders", "which": which, "hist": h,
             "asserts": (WORLDS if asserts is None else asserts) if which != "arch" else [], "show": show}
            for h in hists]


def run_and_validate(specs, procs=16):
    episodes = runner.run_specs(specs, procs)
    tr = trace.validate(episodes, "Trace_Builders.tla", "Trace_Builders.cfg", procs=procs)
    return tr, episodes, attach(tr, specs, episodes)


def mutations(chain):
    """Every single deletion, duplication and transposition of a call chain."""
    out = []
    n = len(chain)
    for i in range(n):
        out.append(chain[:i] + chain[i + 1:])
        out.append(chain[:i + 1] + chain[i:])
    for i in range(n - 1):
        out.append(chain[:i] + [chain[i + 1], chain[i]] + chain[i + 2:])
    return out
