"""C05 - layer-rule verdicts follow the documented semantics, one unit per layer."""
from __future__ import annotations

import itertools
import random

from harness import runner, tlc, trace
from harness.names import anc, related
from harness.result import CheckResult, attach
from harness.world import World, candidate_imports, random_world

ASSUMPTIONS = [
    "LayerLaws.tla: same-layer imports never count, unmentioned layers are like no layer, should-only decomposition and "
    "monotonicity are proved with TLAPS for arbitrary layer denotations (97 obligations); TLC checks on the bounded "
    "model that the copied operators agree with LayerSem (MC_LayerSem!LayerLawsCopyAgrees)",
    "domain: layers list existing modules (at any depth below the root) that are pairwise unrelated across layers; "
    "within one layer a listed module may be repeated by one of its own descendants (redundant); regex layers are built so "
    "that they match exactly the intended modules; their match set (re.match) is an input to the specification",
    "the subject layer is never also an object layer",
    "the layer tag shown for a module of a layer the rule does not mention may be that layer or '(no layer)'",
]

SHAPES = [(v, d, x) for v in ("should", "should_only", "should_not") for d in ("import", "imported") for x in (False, True)]


def model_check(small):
    r = tlc.run("MC_LayerSem.tla", f"MC_LayerSem_{'small' if small else 'big'}.cfg", workers=16, timeout=3000)
    return tlc.require_ok(r, "model checking MC_LayerSem")


def emit_states(small):
    r = tlc.run("MC_LayerSem.tla", f"MC_LayerSem_emit_{'small' if small else 'big'}.cfg", workers=1, timeout=3000)
    tlc.require_ok(r, "emitting MC_LayerSem states")
    return r.printed.get("STATE", []), r


def rules_for(layer_names, rng=None, max_objs=2):
    out = []
    for s in layer_names:
        others = [n for n in layer_names if n != s]
        for v, d, x in SHAPES:
            for k in range(1, min(max_objs, len(others)) + 1):
                for objs in itertools.combinations(others, k):
                    out.append({"verb": v, "dir": d, "exc": x, "any": False, "sub": s, "objs": list(objs)})
        for d in ("import", "imported"):
            out.append({"verb": "should_not", "dir": d, "exc": False, "any": True, "sub": s, "objs": []})
    return out


def antichain(rng, world, min_size=3):
    """Pairwise unrelated modules of mixed depths (sub packages and files anywhere below the root), so that a layer may
    list 'r.a.x' while its package 'r.a' and its sibling 'r.a.y' are in no layer or in another one."""
    mods = [m for m in world.modules if len(m) >= 2]
    rng.shuffle(mods)
    out = []
    for m in mods:
        if all(not related(m, o) for o in out):
            out.append(m)
    return out if len(out) >= min_size else tops_of(world)


def partitions(rng, tops, n_layers, kinds="mixed", world=None):
    """Assign some of the unrelated modules `tops` to n_layers layers (at least one each), others to no layer.
    With `world`: a layer may additionally list a descendant of one of its own modules (redundant - a layer is the
    union of its listed modules and all their descendants)."""
    tops = list(tops)
    rng.shuffle(tops)
    names = ["X", "Y", "Z", "W"][:n_layers]
    layers = [{"name": n, "kind": "names", "listed": [tops[i]]} for i, n in enumerate(names)]
    for m in tops[n_layers:]:
        if rng.random() < 0.55:
            rng.choice(layers)["listed"].append(m)
    for lay in layers:
        lay["kind"] = {"names": "names", "regex": "regex"}.get(kinds) or rng.choice(["names", "regex"])
        lay["as_list"] = rng.random() < 0.7
        if world is not None and rng.random() < 0.3:
            below = [m for m in world.modules if any(anc(x, m) and tuple(x) != tuple(m) for x in map(tuple, lay["listed"]))]
            if below:
                lay["listed"].insert(rng.randint(0, len(lay["listed"])), rng.choice(below))
    return layers


def without_any_on_redundant(rules, layers):
    redundant = {l["name"] for l in layers
                 if any(a != b and related(a, b) for a in map(tuple, l["listed"]) for b in map(tuple, l["listed"]))}
    return [r for r in rules if not (r["any"] and r["sub"] in redundant)]


def _episode(rng, world, layer_sets, n_rules=None, laws=True, render="ident"):
    w = world if isinstance(world, World) else World(world["modules"], world["imports"])
    items = []
    k = 0
    for layers in layer_sets:
        names = [l["name"] for l in layers]
        rules = rules_for(names)
        # 'any layer' is 'except the subject layer itself'; as for module rules (Trace_Rules, law 'any') that has no
        # documented meaning for a subject that lists a module together with one of its own sub modules
        rules = without_any_on_redundant(rules, layers)
        if n_rules is not None and len(rules) > n_rules:
            rules = rng.sample(rules, n_rules)
        for r in rules:
            rid = f"R{k}"; k += 1
            if len(r["objs"]) > 1 and rng.random() < 0.5:      # object layers named in another order than defined
                r = dict(r, objs=list(reversed(r["objs"])))
            items.append({"op": "leval", "a": 0, "rid": rid, "layers": layers, "rule": r,
                          "objs_as_list": rng.random() < 0.6})
            if not laws:
                continue
            roll = rng.random()
            mentioned = {r["sub"], *r["objs"]}
            if roll < 0.12 and len(mentioned) < len(layers):
                # unmentioned layers dropped: same outcome (however they were defined)
                items.append({"op": "leval", "a": 0, "rid": rid + "d", "rule": r,
                              "layers": [l for l in layers if l["name"] in mentioned]})
                items.append({"op": "law", "law": "drop", "as": [0, 0], "rids": [rid, rid + "d"]})
            elif roll < 0.24:
                # same definition written differently: other kind per layer, other list orders
                alt = []
                for l in layers:
                    m = dict(l, kind=("regex" if l["kind"] == "names" else "names"), listed=list(reversed(l["listed"])))
                    alt.append(m)
                r2 = dict(r, objs=list(reversed(r["objs"])))
                items.append({"op": "leval", "a": 0, "rid": rid + "s", "rule": r2,
                              "layers": list(reversed(alt)) if rng.random() < 0.5 else alt})
                items.append({"op": "law", "law": "same", "as": [0, 0], "rids": [rid, rid + "s"]})
    return {"driver": "layers", "world": w.json(), "render": render, "items": items, "grow": rng.random() < 0.3}


def _intra_episode(rng, w, layers):
    """Add one import between two modules of the same layer: no layer rule may change its outcome."""
    def layer_of(m):
        for l in layers:
            if any(anc(x, m) for x in map(tuple, l["listed"])):
                return l["name"]
        return None
    cand = [e for e in candidate_imports(w.modules) if e not in set(w.imports)
            and layer_of(e[0]) is not None and layer_of(e[0]) == layer_of(e[1])]
    if not cand:
        return None
    e = rng.choice(cand)
    items = [{"op": "addimport", "a": 0, "a2": 1, "e": [list(e[0]), list(e[1])]}]
    names = [l["name"] for l in layers]
    for k, r in enumerate(without_any_on_redundant(rules_for(names), layers)):
        items.append({"op": "leval", "a": 0, "rid": f"R{k}", "layers": layers, "rule": r})
        items.append({"op": "leval", "a": 1, "rid": f"R{k}", "layers": layers, "rule": r})
        items.append({"op": "law", "law": "intra", "as": [0, 1], "rids": [f"R{k}", f"R{k}"]})
    return {"driver": "layers", "world": w.json(), "render": "ident", "items": items}


def _twin_episode(rng):
    """Two architectures in one session whose module trees differ: the second has one more package whose name matches
    the PATTERN of a regex-defined layer (r.svc next to the new r.svc_two, pattern 'r\\.svc.*').  A layer defined by a
    pattern is resolved against the architecture a rule is applied to - not against whichever one came first."""
    import re as _re
    w1 = random_world(rng, n_modules=rng.randint(8, 18), n_imports=rng.randint(4, 30))
    tops = tops_of(w1)
    if len(tops) < 3:
        return None
    rng.shuffle(tops)
    p = tops[0]
    stem = p[-1]
    family = [t for t in tops if t[-1].startswith(stem)]          # everything the pattern matches belongs to its layer
    others = [t for t in tops if not t[-1].startswith(stem)]
    if len(others) < 2:
        return None
    new = tuple(p[:-1]) + (stem + "_two",)
    if new in set(w1.modules):
        return None
    importers = [m for m in w1.modules if any(anc(o, m) for o in others)]
    e = (rng.choice(importers), new) if rng.random() < 0.7 else (new, rng.choice(importers))
    w2 = World(list(w1.modules) + [new, new + ("inner",)], list(w1.imports) + [e])
    pat = _re.escape(".".join(p)) + ".*"
    layers = [{"name": "X", "kind": "regex", "listed": [list(t) for t in family], "pat": pat},
              {"name": "Y", "kind": "names", "listed": [list(others[0])]},
              {"name": "Z", "kind": "names", "listed": [list(o) for o in others[1:3]]}]
    items = [{"op": "world", "a": 1, "world": w2.json()}]
    names = [l["name"] for l in layers]
    # (the pattern also matches the sub modules of what it matches: a redundant listing, for which the two 'any layer'
    # shapes have no documented meaning - see without_any_on_redundant and DESIGN section 14, O3)
    rules = rng.sample([r for r in rules_for(names) if not r["any"]], 14)
    order = [0, 1] if rng.random() < 0.7 else [1, 0]
    for k, r in enumerate(rules):
        for a in order:
            items.append({"op": "leval", "a": a, "rid": f"T{k}", "layers": layers, "rule": r})
    return {"driver": "layers", "world": w1.json(), "render": "ident", "items": items}


def tops_of(world):
    """Pairwise unrelated modules of a world: its depth-2 packages (children of the root)."""
    return [m for m in world.modules if len(m) == 2]


def specs_for(ctx):
    rng = random.Random(ctx.seed * 7919 + 5)
    specs, meta = [], {}
    states, _ = emit_states(small=True)
    meta["emitted_states_small"] = len(states)
    for st in states:
        w = World(st["modules"], st["imports"])
        tops = tops_of(w)
        sets = [partitions(rng, tops, n, kinds=k) for n, k in ((2, "names"), (3, "mixed"))]
        specs.append(_episode(rng, w, sets))
    if not ctx.quick:
        states_b, _ = emit_states(small=False)
        meta["emitted_states_big"] = len(states_b)
        for st in rng.sample(states_b, min(1500, len(states_b))):
            w = World(st["modules"], st["imports"])
            tops = tops_of(w)
            sets = [partitions(rng, tops, rng.randint(2, min(4, len(tops))), kinds=rng.choice(["names", "regex", "mixed"]))]
            specs.append(_episode(rng, w, sets, n_rules=40))
    n_worlds = 70 if ctx.quick else 1500
    made = 0
    while made < n_worlds:
        w = random_world(rng, n_modules=rng.randint(8, 24), n_imports=rng.randint(4, 50))
        tops = tops_of(w) if rng.random() < 0.5 else antichain(rng, w)
        if len(tops) < 3:
            continue
        made += 1
        n = rng.randint(2, min(4, len(tops)))
        layers = partitions(rng, tops, n, kinds=rng.choice(["names", "regex", "mixed"]),
                            world=w if rng.random() < 0.5 else None)
        # names as they are, or rendered so that siblings are string prefixes / substrings of one another
        specs.append(_episode(rng, w, [layers], n_rules=36, render=rng.choice(["ident", "adv", "adv2"])))
        if made % 3 == 0:
            ie = _intra_episode(rng, w, layers)
            if ie:
                specs.append(ie)
    meta["random_worlds"] = n_worlds
    n_twin = 0
    while n_twin < (40 if ctx.quick else 800):
        te = _twin_episode(rng)
        if te:
            specs.append(te)
            n_twin += 1
    meta["sessions_with_two_module_trees_and_a_pattern_layer"] = n_twin
    return specs, meta


def run_and_validate(specs, procs=16):
    episodes = runner.run_specs(specs, procs)
    tr = trace.validate(episodes, "Trace_Layers.tla", "Trace_Layers.cfg", procs=procs)
    return tr, episodes, attach(tr, specs, episodes)


def validate_suite_layers(timeout=1800):
    """(T) the repository's own suite as a trace source for LAYER rules: run under /verif's second pytest plugin
    (harness/pytest_plugin_layers.py wraps LayerRule.are_named / assert_applies from outside, in that pytest process
    only), every evaluation of a complete layer rule is validated by Trace_Layers.  Skipped (and said so) when it cannot
    be recorded - the check's own worlds do not depend on it."""
    import json, os, subprocess, tempfile
    try:
        fd, out = tempfile.mkstemp(suffix=".ndjson", dir=tlc.scratch_root())
        os.close(fd)
        env = dict(os.environ, PYTESTARCH_VERIF_TRACE=out, PYTHONDONTWRITEBYTECODE="1")
        env["PYTHONPATH"] = "/verif:" + env.get("PYTHONPATH", "")
        subprocess.run(["/venv/bin/python", "-m", "pytest", "-q", "-p", "no:cacheprovider", "-p", "harness.pytest_plugin_layers",
                        "--deselect", "tests/test_architecture.py"], cwd="/repo", env=env,
                       stdout=subprocess.PIPE, stderr=subprocess.STDOUT, text=True, timeout=timeout)
        meta = json.load(open(out + ".layers.meta"))
        events = [json.loads(l) for l in open(out + ".layers")]
        if meta["evaluations"] < 20:
            raise RuntimeError(f"only {meta['evaluations']} layer-rule evaluations recorded")
    except Exception as e:  # noqa: BLE001
        return trace.TraceResult(), [], [], {"evaluations": 0, "skipped": {"suite layer trace not recorded": str(e)[:300]}}
    tr = trace.validate([events], "Trace_Layers.tla", "Trace_Layers.cfg", procs=1)
    return tr, [events], attach(tr, [{"driver": "suite-layers"}], [events]), meta


def run(ctx):
    mc = model_check(small=ctx.quick)
    # the structural laws of C05 for arbitrary layer denotations, imports and rules (TLAPS); bound to LayerSem by
    # MC_LayerSem!LayerLawsCopyAgrees, which the model check above includes
    proofs = tlc.tlaps_prove("LayerLaws.tla")
    specs, meta = specs_for(ctx)
    tr, episodes, fails = run_and_validate(specs)
    # third trace source: the layer rules the repository's own suite evaluates
    str_, sepisodes, sfails, smeta = validate_suite_layers()
    fails = fails + sfails
    evals = [e for ep in episodes for e in ep if e["k"] == "leval"]
    laws = {}
    for ep in episodes:
        for e in ep:
            if e["k"] == "law":
                laws[e["law"]] = laws.get(e["law"], 0) + 1
    outs = {o: sum(1 for e in evals if e["out"] == o) for o in ("pass", "fail", "error")}
    if not outs["pass"] or not outs["fail"] or not all(laws.get(k) for k in ("drop", "same", "intra")):
        raise tlc.MachineryError(f"vacuous run: {outs} {laws}")
    import json
    distinct = len({json.dumps([ep[0]["imports"], e["layers"], e["rule"]], sort_keys=True)
                    for ep in episodes for e in ep if e["k"] == "leval" and ep[0]["imports"]})
    cov = {"tlaps_obligations_proved": proofs["obligations"], "tlaps_wall_s": proofs["wall"],
           "repository_suite_layer_rule_evaluations_validated": smeta.get("evaluations", 0),
           "repository_suite_layer_rules_skipped": smeta.get("skipped", {}),
           "states": mc.distinct + tr.states + str_.states, "transitions": mc.generated + tr.transitions + str_.transitions,
           "model_states": mc.distinct, "model_transitions": mc.generated,
           "traces_validated_against_impl": len(episodes), "trace_events": tr.events,
           "evaluations": len(evals), "outcomes": outs, "law_instances": laws, "distinct_nontrivial": distinct,
           "rule": "one case = <module tree, imports, layer definition (names/regex/mixed, some modules in no layer), "
                   "layer rule>; non-trivial = at least one import exists; distinct by full content",
           "exhaustive": False, "exhaustive_part": "all import relations of the small model world x all layer rules for "
                                                   "two layer definitions", "samples": [next(e for e in evals if e["out"] == "fail")],
           **meta}
    return CheckResult(fails=fails, coverage=cov, assumptions=ASSUMPTIONS)


def replay(ctx, rp):
    if rp["spec"].get("driver") == "suite-layers":
        tr, episodes, fails, _ = validate_suite_layers()
        return CheckResult(fails=fails, coverage={"replayed_events": tr.events})
    tr, episodes, fails = run_and_validate([rp["spec"]], procs=1)
    return CheckResult(fails=fails, coverage={"replayed_events": tr.events})
