"""C10 - external-library options affect only external modules, never internal ones."""
from __future__ import annotations

import random

from harness import projgen, tlc
from harness.checks import scan_common as sc
from harness.checks import wild_common as wc
from harness.result import CheckResult

ASSUMPTIONS = [
    "external = named by an import statement and outside module_path's name space; for 'from X import n' with X "
    "external the imported external module is X (n may be a function)",
    "a name inside module_path's name space that is no scanned module (the n of 'from . import n') is neither internal "
    "nor external: it contributes no module and no import under any option",
    "external exclusion patterns are matched by TLC (Glob!GlobMatch) on the dotted names; regex forms: match set by re.match",
    "imports of non-existing modules inside the root package (dangling imports) are not generated",
]


def ext_patterns(project, rng):
    """Glob patterns over external names, including patterns that textually also match internal module names."""
    exts = [s["module"] for s in project["stmts"] if s["level"] == 0 and s["module"] and s["module"][0] != project["root"]]
    internal = sc.all_modules(project)
    pats = []
    for t in rng.sample(exts, min(3, len(exts))):
        dotted = ".".join(t)
        pats += [dotted, dotted + "*", "*" + t[-1], "*" + t[-1] + "*", t[0], t[0] + "*", t[0] + ".*"]
    for m in rng.sample(internal, min(3, len(internal))):
        pats += ["*" + m[-1], ".".join(m), ".".join(m[:2]) + "*", "*" + m[-1][:1] + "*"]
    pats += ["*", "*.*", project["root"] + "*"]
    return pats


def episode_for(project, rng, n_pat=6):
    ep = sc.ScanEpisode(project)
    mpaths = [[project["root"]]]
    subs = [d for d in project["dirs"] if len(d) > 1]
    if subs and rng.random() < 0.6:
        mpaths.append(rng.choice(subs))
    pats = ext_patterns(project, rng)
    for mp in mpaths:
        s0 = ep.scan(mpath=mp)
        s1 = ep.scan(mpath=mp, ext=True)
        ep.law("internal", [s0, s1])
        for p in rng.sample(pats, min(n_pat, len(pats))):
            group = [p] if rng.random() < 0.6 else [p, rng.choice(pats)]
            sg = ep.scan(mpath=mp, ext=True, extexcl={"kind": "glob", "patterns": group})
            ep.law("internal", [s0, sg])
            if rng.random() < 0.3:      # external options x level limit: the limited scan is the quotient of the unlimited one
                sl = ep.scan(mpath=mp, ext=True, extexcl={"kind": "glob", "patterns": group}, limit=rng.randint(0, 2))
                ep.law("quotient", [sg, sl])
            if rng.random() < 0.4:
                sr = ep.scan(mpath=mp, ext=True, extexcl={"kind": "regex", "patterns": group, "from_glob": True,
                                                          "join": rng.random() < 0.5})
                ep.law("internal", [s1, sr])
                ep.law("same", [sg, sr])
    return ep.spec


def with_externals(project, rng):
    """Add external import statements to a model-emitted project (nested externals, look-alike names)."""
    p = dict(project, stmts=list(project["stmts"]))
    files = [f["name"] for f in project["files"] if f["py"]]
    for f in files:
        for t in rng.sample(projgen.EXTERNALS, rng.randint(1, 3)):
            if rng.random() < 0.5:
                p["stmts"].append({"file": f, "form": "import", "level": 0, "module": list(t), "names": [], "pos": []})
            else:
                p["stmts"].append({"file": f, "form": "from", "level": 0, "module": list(t), "names": ["thing"], "pos": []})
    return p


def run(ctx):
    rng = random.Random(ctx.seed * 7919 + 10)
    mc = sc.model_check(7 if ctx.quick else 11)
    projects, _ = sc.emit_projects(7 if ctx.quick else 9)
    specs = [episode_for(with_externals(p, rng), rng, 4) for p in (rng.sample(projects, 200) if ctx.quick else projects)
             if any(f["py"] for f in p["files"])]
    n_rand = 250 if ctx.quick else 5000
    for _ in range(n_rand):
        p = projgen.random_project(rng, max_depth=rng.choice([2, 3, 4]), positions=False, n_stmts=rng.randint(4, 30),
                                   odd=rng.random() < 0.3)
        specs.append(episode_for(p, rng, 6))
    # real source trees found on this machine (harness/wild.py), abstracted independently of pytestarch
    wspecs, wtrees = wc.specs(ctx, random.Random(ctx.seed * 7919 + 100), "C10")
    specs += wspecs
    tr, episodes, fails = sc.run_and_validate(specs)
    # the repository's own suite: the scans it makes of its resource projects, validated by the same specification
    str_, sepisodes, sfails, smeta = sc.validate_suite_scans()
    fails = fails + sfails
    st = sc.stats(episodes)
    with_ext = sum(1 for ep in episodes for e in ep if e["k"] == "scan" and e["ext"] and e["out"] == "ok"
                   and any(m[0] != "r" for m in e["modules"]))
    dropped = sum(1 for ep in episodes for e in ep if e["k"] == "scan" and e["extexcl"]["kind"] != "none")
    if not st["law_instances"].get("internal") or not with_ext or not dropped:
        raise tlc.MachineryError(f"vacuous run: {st}")
    cov = {"real_source_trees": wtrees, "repository_suite_scans_validated": smeta.get("scans", 0), "repository_suite_scans_skipped": smeta.get("skipped", {}), "states": mc.distinct + tr.states, "transitions": mc.generated + tr.transitions,
           "model_states": mc.distinct, "model_transitions": mc.generated,
           "traces_validated_against_impl": len(episodes), "trace_events": tr.events,
           "scans_with_external_modules": with_ext, "scans_with_external_exclusions": dropped,
           "random_projects": n_rand, **st, "evaluations": st["scans"], "distinct_nontrivial": with_ext,
           "rule": "one case = <project with internal and external imports, module_path, external option set>; each scan "
                   "is compared with Scan!InternalMods + ExternalMods / ExternalImports and with the scan under the "
                   "default options through the internal-part law",
           "exhaustive": False,
           "exhaustive_part": "MC_Scan!ExternalLaw on every project of the bounded model (TLC); emitted projects decorated "
                              "with external imports replayed under exclude / include / glob and regex external exclusions",
           "samples": [episodes[0][1:3]]}
    return CheckResult(fails=fails, coverage=cov, assumptions=ASSUMPTIONS)


replay = sc.replay
