"""C16 - layer definitions are well-formed: one layer per module, unique names."""
from __future__ import annotations

import random

from harness.checks import builders_common as bc
from harness.result import CheckResult
from harness import tlc

ASSUMPTIONS = [
    "configuration error = any exception other than AssertionError raised by the offending call",
    "whether a one-element list counts as a 'batch' subject, and whether an object list given before any subject is "
    "rejected at the call or at assert_applies, is left open (Builders!LRuleStep 'either')",
    "the accepted definition is observed through architecture[layer], str(architecture) and architecture.layer_mapping",
]


def run(ctx):
    rng = random.Random(ctx.seed * 7919 + 16)
    n_arch, n_lrule = (4, 4) if ctx.quick else (5, 4)
    mcs = [bc.model_check("arch", n_arch), bc.model_check("arch3", 6), bc.model_check("lrule", min(n_lrule, 5)), bc.model_check("lchain", 6)]
    specs, meta = [], {}
    hs, _ = bc.emit_histories("arch", n_arch)
    meta[f"histories_arch_upto_{n_arch}"] = len(hs)
    specs += bc.specs_from("arch", hs)
    # three layers / three modules, alternating layer(..) and module calls: every definition with up to three layers
    hs3, r3 = bc.emit_histories("arch3", 6)
    meta["histories_arch_three_layers_upto_6"] = len(hs3)
    specs += bc.specs_from("arch", hs3 if not ctx.quick else rng.sample(hs3, 4000))
    hs, _ = bc.emit_histories("lrule", n_lrule)
    meta[f"histories_lrule_upto_{n_lrule}"] = len(hs)
    specs += bc.specs_from("lrule", hs, asserts=bc.WORLDS[:1])
    # well-shaped chains: every verb x access kind x object layer list (two layers in both orders, an undefined one)
    hc, _ = bc.emit_histories("lchain", 6)
    meta["layer_rule_chains_upto_6"] = len(hc)
    specs += bc.specs_from("lrule", hc, asserts=bc.WORLDS)
    if not ctx.quick:      # a seeded sample of the 177 303 LayerRule histories of length <= 5 (all of them need > 20 GB)
        hs5, _ = bc.emit_histories("lrule", 5)
        hs5 = rng.sample(hs5, 40000)
        meta["sampled_histories_lrule_upto_5"] = len(hs5)
        specs += bc.specs_from("lrule", hs5, asserts=bc.WORLDS[:1])
        del hs5
    # the complete automata (histories of any length): every state by a shortest history and every transition
    closures = []
    for which in ("arch", "lrule"):
        cstates, ctrans, cr = bc.closure(which)
        closures.append(cr)
        meta[f"automaton_states_{which}"] = len(cstates)
        meta[f"automaton_transitions_{which}"] = len(ctrans)
        specs += bc.specs_from(which, cstates + ctrans, asserts=bc.WORLDS[:1])
    mcs = mcs + closures
    for which, depth, num in (("arch", 9, 3000 if ctx.quick else 20000), ("lrule", 8, 500 if ctx.quick else 8000)):
        hs, _ = bc.simulate_histories(which, depth, num, seed=ctx.seed + 2)
        meta[f"simulated_{which}_depth_{depth}"] = len(hs)
        specs += bc.specs_from(which, hs, asserts=bc.WORLDS[:1])
    tr, episodes, fails = bc.run_and_validate(specs)
    rejected = sum(1 for ep in episodes for e in ep if e["k"] == "call" and e["out"] == "error")
    accepted = sum(1 for ep in episodes for e in ep if e["k"] == "call" and e["out"] == "ok")
    shows = sum(1 for ep in episodes for e in ep if e["k"] == "show")
    str_bad = [e for ep in episodes for e in ep if e["k"] == "show" and not e["str_consistent"]]
    if str_bad:
        fails = fails + [{"prop": "C16", "clause": "str-differs-from-getitem", "detail": str_bad[0]["str"],
                          "event": str_bad[0], "spec": None, "episode_events": None}]
    map_bad = [e for ep in episodes for e in ep if e["k"] == "show" and not e.get("mapping_consistent", True)]
    if map_bad:
        fails = fails + [{"prop": "C16", "clause": "layer-mapping-differs-from-getitem", "detail": map_bad[0]["str"],
                          "event": map_bad[0], "spec": None, "episode_events": None}]
    if not rejected or not accepted or not shows:
        raise tlc.MachineryError("vacuous run")
    states = sum(m.distinct for m in mcs)
    cov = {"states": states + tr.states, "transitions": sum(m.generated for m in mcs) + tr.transitions,
           "model_states": states, "traces_validated_against_impl": len(episodes), "trace_events": tr.events,
           "calls_rejected": rejected, "calls_accepted": accepted, "definitions_observed": shows,
           "evaluations": len(specs), "distinct_nontrivial": len({str(s["hist"]) for s in specs}),
           "rule": "one case = one builder call history replayed on fresh real objects; after every call on a "
                   "LayeredArchitecture its definition is observed and compared with Builders!ArchShow",
           "exhaustive": False,
           "exhaustive_part": f"all histories up to {n_arch} calls (LayeredArchitecture, 9-call vocabulary with two layer "
                              f"names and two module names in str and list form) and up to {n_lrule} calls (LayerRule); every "
                              "state and every transition of the complete LayeredArchitecture and LayerRule automata "
                              "(TLC with VIEW = automaton state: model-level invariants hold for histories of any length)",
           "samples": [episodes[len(episodes) // 3][:10]], **meta}
    return CheckResult(fails=fails, coverage=cov, assumptions=ASSUMPTIONS)


def replay(ctx, rp):
    tr, episodes, fails = bc.run_and_validate([rp["spec"]], procs=1)
    return CheckResult(fails=fails, coverage={"replayed_events": tr.events})
