"""C01 - module-rule verdicts equal the documented rule semantics."""
from __future__ import annotations

import random

from harness.checks import rules_common as rc
from harness.episodes import RuleEpisode
from harness.result import CheckResult
from harness.world import World, random_world

ASSUMPTIONS = [
    "strict oracle only for rules whose subjects and objects are pairwise unrelated in the hierarchy (RuleSem!Strict)",
    "'sub modules of P' are P's strict descendants: an import between one of them and P itself is an import of (by) "
    "something else, in both directions (until round 5 this corner was left open - DESIGN section 14, d8ba676)",
    "real architectures are built like the repository's tests build them (NetworkxGraph from modules + AbsoluteImport)",
    "the message parser accepts exactly the sentence forms of LANGUAGE_DEFINTION.md",
]


def specs_for(ctx):
    rng = random.Random(ctx.seed * 7919 + 1)
    specs = []
    meta = {}
    # (R) every state of the bounded model, replayed with the complete single-subject/single-object rule space
    small = "W4"
    states, r_emit = rc.emit_states(small)
    meta["emitted_states_" + small] = len(states)
    for st in states:
        ep = RuleEpisode({"modules": st["modules"], "imports": st["imports"]})
        for rule in rc.full_single_space(st["modules"]):
            ep.eval(rule)
        specs.append(ep.spec)
    big = "W5" if ctx.quick else "W6"
    states_b, r_emit_b = rc.emit_states(big)
    meta["emitted_states_" + big] = len(states_b)
    take = states_b if not ctx.quick else rng.sample(states_b, 40)
    if not ctx.quick:
        take = rng.sample(states_b, 1500)
    for st in take:
        ep = RuleEpisode({"modules": st["modules"], "imports": st["imports"]})
        space = rc.full_single_space(st["modules"])
        for rule in (space if ctx.quick else rng.sample(space, 400)):
            ep.eval(rule)
        for rule in rc.sampled_rules(rng, st["modules"], 30 if ctx.quick else 60, max_batch=3):
            ep.eval(rule)
        specs.append(ep.spec)
    meta["replayed_states_" + big] = len(take)
    # (T) seeded random worlds far beyond the exhaustive bound, batches of 1..3
    n_worlds = 60 if ctx.quick else 1500
    for _ in range(n_worlds):
        shape = rng.random()
        # mostly mid-sized trees; sometimes tiny ones (2-4 modules) and deep ones (up to 7 levels)
        w = (random_world(rng, n_modules=rng.randint(2, 4), n_imports=rng.randint(0, 4)) if shape < 0.1 else
             random_world(rng, depth=7) if shape < 0.25 else random_world(rng))
        ep = RuleEpisode(w, render=rng.choice(["ident", "clean", "adv", "adv2"]))
        for rule in rc.sampled_rules(rng, w.modules, 60, max_batch=3):
            ep.eval(rule, single_as_string=rng.random() < 0.5)
        specs.append(ep.spec)
    # worlds shaped like scanned trees: every package has an '__init__' module that imports and is imported
    n_init = 25 if ctx.quick else 500
    specs += rc.package_init_specs(rng, n_init, partners=False)
    meta["worlds_with_package_init_modules"] = n_init
    meta["random_worlds"] = n_worlds
    return specs, meta


def run(ctx):
    mc = rc.model_check("W4" if ctx.quick else "W5")
    specs, meta = specs_for(ctx)
    tr, episodes, fails = rc.run_and_validate(specs)
    # third trace source: the repository's own test suite under /verif's pytest plugin
    str_, sepisodes, sfails, smeta = rc.validate_suite()
    fails = fails + sfails
    evals, nontrivial = rc.nontrivial_count(episodes)
    sample = next((e for ep in episodes for e in ep if e["k"] == "eval" and e["out"] == "fail"), episodes[0][1])
    cov = {"repository_suite_rule_evaluations_validated": smeta["evaluations"], "repository_suite_skipped": smeta["skipped"],
           "states": mc.distinct + tr.states + str_.states, "transitions": mc.generated + tr.transitions + str_.transitions,
           "model_states": mc.distinct, "model_transitions": mc.generated,
           "traces_validated_against_impl": len(episodes), "trace_events": tr.events,
           "evaluations": evals, "distinct_nontrivial": nontrivial,
           "rule": "one case = <module tree, import relation, rule>; non-trivial = some import touches a subject's "
                   "sub-tree; exhaustive part: every import relation of the bounded world x every single-subject/"
                   "single-object rule over its modules",
           "exhaustive": False, "exhaustive_part": f"all {meta.get('emitted_states_W4')} import relations of W4 x full single rule space",
           "samples": [{"arch": episodes[0][0], "event": sample}], **meta}
    return CheckResult(fails=fails, coverage=cov, assumptions=ASSUMPTIONS)


def replay(ctx, rp):
    spec = rp["spec"]
    if spec.get("driver") == "suite":
        tr, episodes, fails, _ = rc.validate_suite()
        return CheckResult(fails=fails, coverage={"replayed_events": tr.events})
    tr, episodes, fails = rc.run_and_validate([spec], procs=1)
    return CheckResult(fails=fails, coverage={"replayed_events": tr.events})
