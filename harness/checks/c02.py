"""C02 - every import statement in a scanned file becomes an import edge, and only those."""
from __future__ import annotations

import random

from harness import projgen, tlc
from harness import project as pj
from harness.checks import scan_common as sc
from harness.checks import wild_common as wc
from harness.result import CheckResult

ASSUMPTIONS = [
    "statement-list positions are enumerated from the running interpreter's grammar (ast.<Class>.__doc__); the source "
    "templates must cover exactly those; every rendered file is re-parsed and its Import/ImportFrom nodes recovered "
    "with ast.walk must be exactly the intended statements",
    "'from P import n' with P.n a scanned module: the edge to P.n is required, an edge to P is accounted for "
    "(must <= observed <= may); imports of the importing file's own ancestor packages are never required",
    "'import *' only at module level; relative levels stay inside the root package",
]

PACK = 40


def stmt_for(form, i, importer):
    """Abstract statement(s) of one placement; every placement imports its own target module."""
    t = f"t{i}"
    depth = len(importer) - 1          # r.p.q.src -> packages r, r.p, r.p.q
    S = lambda **k: {"file": importer, "alias": False, "grp": None, **k}
    if form == "plain":
        return [S(form="import", level=0, module=["r", "u", t], names=[])], [["r", "u", t]]
    if form == "aliased":
        return [S(form="import", level=0, module=["r", "u", t], names=[], alias=True)], [["r", "u", t]]
    if form == "multi":
        return [S(form="import", level=0, module=["r", "u", t], names=[], grp=i),
                S(form="import", level=0, module=["r", "u", "s" + str(i)], names=[], grp=i)], [["r", "u", t], ["r", "u", "s" + str(i)]]
    if form == "from_name":
        return [S(form="from", level=0, module=["r", "u"], names=[t])], [["r", "u", t]]
    if form == "from_submodule":
        return [S(form="from", level=0, module=["r", "u", t], names=["helper"])], [["r", "u", t]]
    if form == "star":
        return [S(form="from", level=0, module=["r", "u", t], names=["*"])], [["r", "u", t]]
    if form == "rel1":
        return [S(form="from", level=1, module=[], names=[t])], [importer[:-1] + [t]]
    if form == "rel2":
        return [S(form="from", level=2, module=[], names=[t])], [importer[:-2] + [t]]
    if form == "rel_pkg":
        return [S(form="from", level=depth, module=["u"], names=[t])], [["r", "u", t]]
    raise ValueError(form)


def position_projects(placements, rng):
    """Pack placements PACK to a file; half of the files are __init__ files."""
    projects = []
    for k in range(0, len(placements), PACK):
        chunk = placements[k:k + PACK]
        importer = ["r", "p", "q", "__init__" if (k // PACK) % 2 else "src"]
        dirs = [["r"], ["r", "p"], ["r", "p", "q"], ["r", "u"]]
        files = {tuple(importer)}
        stmts = []
        for i, pl in enumerate(chunk):
            ss, targets = stmt_for(pl["form"], i, importer)
            for s in ss:
                s["pos"] = list(pl["pos"])
                s["lay"] = pl.get("lay", "line")
            stmts += ss
            files.update(tuple(t) for t in targets)
        projects.append({"root": "r", "dirs": dirs, "files": [{"name": list(f), "py": True} for f in sorted(files)],
                         "stmts": stmts})
    return projects


def run(ctx):
    rng = random.Random(ctx.seed * 7919 + 2)
    mc = sc.model_check(7 if ctx.quick else 11)
    depth = 2 if ctx.quick else 3
    pr, slots = sc.model_check_positions(depth, emit=True)
    placements = pr.printed.get("POS", [])
    if len(placements) != sum(1 for _ in placements) or not placements:
        raise tlc.MachineryError("no placements emitted")
    rng.shuffle(placements)
    # files in which NO import statement starts a physical line (all behind a semicolon or on the header line of a
    # compound statement) are kept apart from the others: a scanner that looks at lines instead of the syntax tree
    # would still find something in a mixed file
    unanchored = [p for p in placements if p.get("lay") in ("semicolon", "inline")]
    anchored = [p for p in placements if p.get("lay") not in ("semicolon", "inline")]
    specs = []
    for p in position_projects(unanchored, rng) + position_projects(anchored, rng):
        ep = sc.ScanEpisode(p)
        ep.scan()
        specs.append(ep.spec)
    n_rand = 200 if ctx.quick else 4000
    for _ in range(n_rand):
        p = projgen.random_project(rng, max_depth=rng.choice([2, 3, 4, 5]), externals=rng.random() < 0.5, odd=rng.random() < 0.2,
                                   n_stmts=rng.randint(4, 40), rel_abs=True)
        ep = sc.ScanEpisode(p)
        subs = [d for d in p["dirs"] if len(d) > 1] + p.get("rel_dirs", [])
        order = [None] + ([rng.choice(subs)] if subs else []) + ([rng.choice(subs)] if subs and rng.random() < 0.5 else [])
        rng.shuffle(order)              # the root scan first, last or in between: scans must not influence each other
        for mp in order:
            ep.scan(mpath=mp)
        specs.append(ep.spec)
    # real source trees found on this machine (harness/wild.py), abstracted independently of pytestarch
    wspecs, wtrees = wc.specs(ctx, random.Random(ctx.seed * 7919 + 100), "C02")
    specs += wspecs
    tr, episodes, fails = sc.run_and_validate(specs)
    # the repository's own suite: the scans it makes of its resource projects, validated by the same specification
    str_, sepisodes, sfails, smeta = sc.validate_suite_scans()
    fails = fails + sfails
    st = sc.stats(episodes)
    used = {s for pl in placements for s in pl["pos"]}
    if used != set(slots) or not st["imports_observed"]:
        raise tlc.MachineryError(f"vacuous run: slots never used {set(slots) - used}; {st}")
    cov = {"real_source_trees": wtrees, "repository_suite_scans_validated": smeta.get("scans", 0), "repository_suite_scans_skipped": smeta.get("skipped", {}), "states": mc.distinct + pr.distinct + tr.states, "transitions": mc.generated + pr.generated + tr.transitions,
           "model_states": mc.distinct + pr.distinct, "traces_validated_against_impl": len(episodes),
           "trace_events": tr.events, "statement_list_slots": slots, "position_depth": depth,
           "placements_replayed": len(placements),
           "layouts": {y: sum(1 for p in placements if p.get("lay") == y) for y in pj.LAYOUTS}, "random_projects": n_rand, **st,
           "evaluations": st["statements"], "distinct_nontrivial": len(placements) + st["statements"],
           "rule": "one case = one import statement <form, position (stack of statement-list slots), layout, importing file>; "
                   "each placement imports its own target module, so a lost or invented edge identifies its position",
           "exhaustive": False,
           "exhaustive_part": f"every position up to nesting depth {depth} over the {len(slots)} statement-list slots of this "
                              f"interpreter's grammar x 9 import forms ({len(placements)} placements), in plain and __init__ files",
           "samples": [placements[:3]]}
    return CheckResult(fails=fails, coverage=cov, assumptions=ASSUMPTIONS)


replay = sc.replay
