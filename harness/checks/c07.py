"""C07 - DiagramRule passes exactly when the imports conform to the diagram."""
from __future__ import annotations

import random

from harness import runner, tlc, trace
from harness.checks.c06 import random_diagram
from harness.result import CheckResult, attach
from harness.world import World, random_world

ASSUMPTIONS = [
    "components are existing, pairwise unrelated modules (DiagramSem!DiagramWF); bystander modules and sub modules of "
    "components are part of the worlds",
    "aggregated messages are compared as sets of lines (a line produced by two violated rules counts once)",
]


def _cfg(emit):
    inv = "INVARIANT EmitState" if emit else "INVARIANT ConformsIsRules"
    return tlc.write_cfg(f"""SPECIFICATION Spec
CONSTANTS
  Mode = "conform"
  MaxLines = 0
  EMIT = {"TRUE" if emit else "FALSE"}
  Dotted = FALSE
{inv}
CHECK_DEADLOCK FALSE
""")


RELS = [[], [("a", "b")], [("a", "b"), ("b", "a")], [("a", "b"), ("a", "c")], [("a", "b"), ("b", "c"), ("c", "a")],
        [("c", "a")], [("a", "c"), ("b", "c")]]


def _items(rng, comps_simple, rels, base, n=None):
    items = []
    combos = [(rel, only, qualified) for rel in rels for only in (True, False) for qualified in (False, True)]
    if n is not None and len(combos) > n:
        combos = rng.sample(combos, n)
    for k, (rel, only, qualified) in enumerate(combos):
        L = lambda c: list(c) if isinstance(c, (list, tuple)) else [c]      # a component: one name or a dotted name
        if qualified:
            comps = [base + L(c) for c in comps_simple]
            deps = [(base + L(a), base + L(b)) for a, b in rel]
            b = []
        else:
            comps = [L(c) for c in comps_simple]
            deps = [(L(a), L(b)) for a, b in rel]
            b = base
        items.append({"op": "deval", "a": 0, "rid": f"D{k}", "comps": comps, "deps": deps, "only": only, "base": b})
    return items


def run(ctx):
    rng = random.Random(ctx.seed * 7919 + 7)
    mc = tlc.require_ok(tlc.run("MC_Diagram.tla", _cfg(False), workers=16, timeout=3000), "MC_Diagram conform")
    r = tlc.require_ok(tlc.run("MC_Diagram.tla", _cfg(True), workers=1, timeout=3000), "emit conform states")
    states = r.printed.get("STATE", [])
    meta = {"emitted_states": len(states)}
    take = states if not ctx.quick else rng.sample(states, min(len(states), 250))
    specs = []
    for st in take:
        specs.append({"driver": "diagram", "world": {"modules": st["modules"], "imports": st["imports"]},
                      "items": _items(rng, ["a", "b", "c"], RELS, ["r"], n=None if not ctx.quick else 10)})
    meta["replayed_states"] = len(take)
    # random worlds: 2-6 components among the root's packages, random relation, alias / name / form mixing
    from harness.world import PREFIX_POOL
    n_worlds = 150 if ctx.quick else 3000
    made = 0
    while made < n_worlds:
        w = random_world(rng, n_modules=rng.randint(8, 26), n_imports=rng.randint(2, 45),
                         pool=PREFIX_POOL if rng.random() < 0.5 else None)      # component names that prefix each other
        tops = [m for m in w.modules if len(m) == 2]
        if len(tops) < 3:
            continue
        made += 1
        k = rng.randint(2, min(6, len(tops) - (1 if len(tops) > 2 and rng.random() < 0.6 else 0)))
        comps = [m[1] for m in rng.sample(tops, k)]
        pairs = [(a, b) for a in comps for b in comps if a != b]
        # relations close to the actual imports are the interesting ones: start from the real component relation
        actual = set()
        for u, v in w.imports:
            if len(u) > 1 and len(v) > 1 and u[1] in comps and v[1] in comps and u[1] != v[1]:
                actual.add((u[1], v[1]))
        rels = [sorted(actual)]
        for _ in range(3):
            rel = set(actual)
            for p in rng.sample(pairs, min(len(pairs), rng.randint(1, 2))):
                rel.symmetric_difference_update({p})
            rels.append(sorted(rel))
        rels.append(sorted(rng.sample(pairs, rng.randint(0, min(len(pairs), 4)))))
        specs.append({"driver": "diagram", "world": w.json(), "items": _items(rng, comps, rels, ["r"], n=8)})
    meta["random_worlds"] = n_worlds
    # components with dotted names relative to the base module (sub packages two or three levels below it), in trees
    # where a package contains a sub package of its own name (mysite/mysite/...): 'with_base_module(p)' must mean
    # exactly 'p.<component>' also for a component that itself starts with 'p.'
    n_nested = 60 if ctx.quick else 1200
    made = 0
    while made < n_nested:
        w = random_world(rng, n_modules=rng.randint(10, 26), n_imports=rng.randint(4, 45), depth=5,
                         pool=["r", "a", "b", "r", "c", "ab", "d"])
        base = list(rng.choice([m for m in w.modules if len(m) <= 2]))
        below = [m[len(base):] for m in w.modules if len(m) > len(base) and list(m[:len(base)]) == base
                 and len(m) - len(base) <= 3]
        rng.shuffle(below)
        comps = []
        for c in sorted(below, key=lambda c: (c[0] != base[-1], rng.random())):     # names starting like the base first
            if all(c[:len(o)] != o and o[:len(c)] != c for o in comps):
                comps.append(c)
            if len(comps) == 4:
                break
        if len(comps) < 2:
            continue
        made += 1
        pairs = [(a, b) for a in comps for b in comps if a != b]
        actual = set()
        for u, v in w.imports:
            for a in comps:
                for b in comps:
                    if a != b and u[:len(base) + len(a)] == tuple(base) + a and v[:len(base) + len(b)] == tuple(base) + b:
                        actual.add((a, b))
        rels = [sorted(actual)]
        for _ in range(2):
            rel = set(actual)
            for p in rng.sample(pairs, min(len(pairs), rng.randint(1, 2))):
                rel.symmetric_difference_update({p})
            rels.append(sorted(rel))
        specs.append({"driver": "diagram", "world": w.json(), "items": _items(rng, comps, rels, base, n=8)})
    meta["worlds_with_dotted_components_below_a_base"] = n_nested
    # one DiagramRule object, several base modules: two sibling packages r.p / r.q with the same inner structure and
    # different imports; the rule object is built once and re-targeted with with_base_module(..) before each evaluation
    # (p, q, p, ..) - each evaluation must be the one of a fresh rule for that base module
    n_twin = 60 if ctx.quick else 1200
    made = 0
    while made < n_twin:
        w0 = random_world(rng, n_modules=rng.randint(6, 16), n_imports=rng.randint(2, 30),
                          pool=PREFIX_POOL if rng.random() < 0.5 else None)
        tops = [m for m in w0.modules if len(m) == 2]
        if len(tops) < 2:
            continue
        made += 1
        P, Q = ("r", "p"), ("r", "q")
        inner = [tuple(m[1:]) for m in w0.modules if len(m) > 1]
        imps0 = [(tuple(u[1:]), tuple(v[1:])) for u, v in w0.imports if len(u) > 1 and len(v) > 1]
        imps_q = [e for e in imps0 if rng.random() < 0.6]
        cands = [(u, v) for u in inner for v in inner if u[0] != v[0]]
        imps_q += rng.sample(cands, min(len(cands), rng.randint(0, 3)))
        mods = [("r",), P, Q] + [P + m for m in inner] + [Q + m for m in inner]
        imps = sorted({(P + u, P + v) for u, v in imps0} | {(Q + u, Q + v) for u, v in imps_q})
        w = World(mods, imps)
        comps = [m[1] for m in rng.sample(tops, rng.randint(2, min(4, len(tops))))]
        pairs = [(a, b) for a in comps for b in comps if a != b]
        actual = sorted({(u[0], v[0]) for u, v in imps0 if u[0] in comps and v[0] in comps and u[0] != v[0]})
        items = []
        for k, rel in enumerate([actual, sorted(rng.sample(pairs, rng.randint(0, min(len(pairs), 3))))]):
            for only in (True, False):
                for j, base in enumerate(rng.choice([[P, Q, P], [Q, P, Q, P], [P, Q]])):
                    items.append({"op": "deval", "a": 0, "rid": f"R{k}{int(only)}{j}", "robj": f"{k}{int(only)}",
                                  "comps": [[c] for c in comps], "deps": [([a], [b]) for a, b in rel], "only": only,
                                  "base": list(base)})
        specs.append({"driver": "diagram", "world": w.json(), "items": items})
    meta["worlds_with_one_rule_object_retargeted_between_sibling_packages"] = n_twin
    episodes = runner.run_specs(specs, 16)
    tr = trace.validate(episodes, "Trace_Diagram.tla", "Trace_Diagram.cfg", procs=16)
    fails = attach(tr, specs, episodes)
    evs = [e for ep in episodes for e in ep if e["k"] == "deval"]
    outs = {o: sum(1 for e in evs if e["out"] == o) for o in ("pass", "fail", "error")}
    multi = sum(1 for e in evs if e["out"] == "fail" and len(e["real"]) + len(e["miss"]) > 1)
    if not outs["pass"] or not outs["fail"] or not multi:
        raise tlc.MachineryError(f"vacuous: {outs} multi={multi}")
    import json
    distinct = len({json.dumps([ep[0]["imports"], e["comps"], e["deps"], e["only"], e["base"]]) for ep in episodes
                    for e in ep if e["k"] == "deval" and ep[0]["imports"]})
    cov = {"states": mc.distinct + tr.states, "transitions": mc.generated + tr.transitions, "model_states": mc.distinct,
           "traces_validated_against_impl": len(episodes), "trace_events": tr.events, "evaluations": len(evs),
           "outcomes": outs, "failures_with_several_lines": multi, "distinct_nontrivial": distinct,
           "rule": "one case = <architecture, component relation, mode, naming option>; non-trivial = the architecture "
                   "has imports; distinct by content",
           "exhaustive": False, "samples": [next(e for e in evs if e["out"] == "fail")], **meta}
    return CheckResult(fails=fails, coverage=cov, assumptions=ASSUMPTIONS)


def replay(ctx, rp):
    specs = [rp["spec"]]
    episodes = runner.run_specs(specs, 1)
    tr = trace.validate(episodes, "Trace_Diagram.tla", "Trace_Diagram.cfg", procs=1)
    return CheckResult(fails=attach(tr, specs, episodes), coverage={"replayed_events": tr.events})
