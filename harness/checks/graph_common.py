"""Graph.tla - the construction of an architecture from a module list and an import list, as an algorithm.

(M) TLC explores every module list / import list / level limit of the bounded instance in EVERY processing order and
    checks that the result is the order-free Graph!Expected (C04 C02 C15) and the quotient of the unlimited build (C09);
    with the linking order the code had before repair 2892f96 the same invariant must be REFUTED (sensitivity guard).
(R) every input TLC reaches is emitted with the graph that must come out and built by the real NetworkxGraph in several
    listing orders.
(T) random larger inputs (module lists with implicit parents, imports of names that are no modules, level limits),
    several listing orders each, validated by Trace_Graph.
"""
from __future__ import annotations

import random

from harness import runner, tlc, trace
from harness.result import attach
from harness.world import random_world


def _cfg(maxmods, maximps, emit=False, parents_first=True, inv=None):
    inv = inv or ("INVARIANT EmitBuild" if emit else ("INVARIANT BuildsExpected\nINVARIANT QuotientOfUnlimited\nINVARIANT WellFormed"))
    return tlc.write_cfg(f"""SPECIFICATION GSpec
CONSTANTS
  Universe <- MUniverse
  CandImps <- MCand
  Keeps = {{0, 1, 2, 3}}
  MaxMods = {maxmods}
  MaxImps = {maximps}
  ParentsFirst = {"TRUE" if parents_first else "FALSE"}
  EMIT = {"TRUE" if emit else "FALSE"}
{inv}
CHECK_DEADLOCK FALSE
""")


def model_check(quick):
    mm, mi = (4, 2) if quick else (6, 2)
    r = tlc.require_ok(tlc.run("MC_Graph.tla", _cfg(mm, mi), workers=16, timeout=3000), "model checking MC_Graph")
    if not quick:      # thorough: also every list of three imports over module lists of up to four (2.5 M states)
        r3 = tlc.require_ok(tlc.run("MC_Graph.tla", _cfg(4, 3), workers=16, timeout=3000), "model checking MC_Graph (4, 3)")
        r.distinct += r3.distinct
        r.generated += r3.generated
    # sensitivity: the linking order before repair 2892f96 must be refuted, and some build must fold an import
    old = tlc.run("MC_Graph.tla", _cfg(3, 1, parents_first=False), workers=4, timeout=600)
    if "BuildsExpected" not in old.violated:
        raise tlc.MachineryError("MC_Graph does not refute the pre-2892f96 linking order: the model is insensitive")
    # vacuity: some explored build has an import that the level limit folds into one module
    fold = tlc.run("MC_Graph.tla", _cfg(3, 1, inv="INVARIANT NoImportFolded"), workers=4, timeout=600)
    if "NoImportFolded" not in fold.violated:
        raise tlc.MachineryError("MC_Graph: no explored build folds an import under a level limit (vacuous quotient law)")
    return r


def emitted_builds(quick):
    mm, mi = (3, 1) if quick else (4, 2)
    r = tlc.run("MC_Graph.tla", _cfg(mm, mi, emit=True), workers=1, timeout=3000)
    tlc.require_ok(r, "emitting MC_Graph builds")
    return r.printed.get("BUILD", []), r


def replay_emitted(builds, rng, n_orders=3):
    """(R): the real graph of every emitted input, in several listing orders, against the graph TLC reached."""
    from harness.graphdriver import build
    fails = []
    norm = lambda xs: sorted(xs)
    for b in builds:
        want = {"nodes": norm(b["nodes"]), "hier": norm(b["hier"]), "imports": norm(b["imports"])}
        for seed in [None] + [rng.randint(0, 10 ** 6) for _ in range(n_orders)]:
            spec = {"driver": "graph", "mods": b["mods"], "imps": b["imps"], "keep": b["keep"], "orders": [seed]}
            try:
                got = build(b["mods"], b["imps"], b["keep"], seed)
            except Exception as e:  # noqa: BLE001
                got = {"error": f"{type(e).__name__}: {e}"}
            if got != want:
                which = next((k for k in ("nodes", "hier", "imports") if got.get(k) != want[k]), "nodes")
                prop = "C09" if b["keep"] else {"nodes": "C04", "hier": "C04", "imports": "C02"}[which]
                fails.append({"prop": prop + ",C15", "clause": f"graph-built-from-a-model-input-differs-in-its-{which}",
                              "detail": {"want": want, "got": got}, "event": {"input": b, "order": seed}, "spec": spec,
                              "episode_events": None})
                break
    return fails


def random_specs(rng, n):
    specs = []
    for _ in range(n):
        w = random_world(rng, n_modules=rng.randint(4, 18), n_imports=rng.randint(0, 20))
        inner = {tuple(m[:i]) for m in w.modules for i in range(1, len(m))}
        mods = [m for m in w.modules if tuple(m) not in inner or rng.random() < 0.6] or list(w.modules)
        imps = [(u, v) for u, v in w.imports if u in mods]
        files = [m for m in mods if tuple(m) not in inner] or mods
        for _ in range(rng.randint(0, 3)):             # imports of names that are no modules
            u = rng.choice(files)
            t = rng.choice(w.modules)
            imps.append((u, tuple(t) + (rng.choice(["helper", "Thing", "zz"]),)))
        keep = rng.choice([0, 0, 1, 2, 3, 4])
        specs.append({"driver": "graph", "mods": [list(m) for m in mods], "imps": [[list(u), list(v)] for u, v in imps],
                      "keep": keep, "orders": [None] + [rng.randint(0, 10 ** 6) for _ in range(3)]})
    return specs


def run_all(ctx, seed_salt):
    rng = random.Random(ctx.seed * 7919 + seed_salt)
    mc = model_check(ctx.quick)
    builds, er = emitted_builds(ctx.quick)
    if ctx.quick and len(builds) > 3000:
        builds = rng.sample(builds, 3000)
    rfails = replay_emitted(builds, rng)
    specs = random_specs(rng, 300 if ctx.quick else 6000)
    episodes = runner.run_specs(specs, 16)
    tr = trace.validate(episodes, "Trace_Graph.tla", "Trace_Graph.cfg", procs=16)
    tfails = attach(tr, specs, episodes)
    n_builds = sum(len(ep) for ep in episodes)
    limited = sum(1 for ep in episodes for e in ep if e["keep"])
    if not n_builds or not limited:
        raise tlc.MachineryError("vacuous graph-construction run")
    meta = {"graph_model_states": mc.distinct, "graph_model_transitions": mc.generated,
            "graph_model_inputs_replayed": len(builds), "graph_builds_validated": n_builds,
            "graph_builds_with_level_limit": limited, "graph_trace_states": tr.states}
    return rfails + tfails, meta, mc, tr
