"""C14 - module identity follows dotted-name boundaries: outcomes are invariant under injective component renamings."""
from __future__ import annotations

import json
import random

from harness import runner, tlc, trace
from harness.checks import c05, c17
from harness.checks import rules_common as rc
from harness.result import CheckResult, attach
from harness.world import World, random_world

ASSUMPTIONS = [
    "renamings: 'clean' (alpha, bravo, ... - no name is a substring of another), 'adv' (a chain a, ab, ab_, ab_c ...: "
    "every name is a string prefix of every later one, so any two siblings are prefix-related) and 'adv2' (a, xa, a_b, "
    "aa, a1 ...: substrings / suffixes of one another), 'case' (a, A, aA ...: names differing only in letter case) and 'adv3' (p, a, b, a_b, axb ...: 'p.a.b' next to 'p.a_b', look-alikes when a "
    "dot is read as a wildcard)",
    "regex and partial-name specifications are excluded (renaming changes what they match); layers are defined by "
    "name lists only",
    "outcomes are compared after mapping names back through the inverse renaming, component by component",
    "scan-level identity: each abstract project is scanned under the three namings with the same configurations; the "
    "sets of failing Trace_Scan clauses must be identical (a scan that conforms under collision-free names must "
    "conform under adversarial ones)",
]

KINDS = ("clean", "adv", "adv2", "adv3", "case")


def rule_episode(world, rules, extra=None):
    items = []
    for i, rule in enumerate(rules):
        rid = f"R{i}"
        for kind in KINDS:
            items.append({"op": "eval", "a": [0, kind], "rid": rid, "rule": rule})
        for kind in KINDS[1:]:
            items.append({"op": "law", "law": "rename", "as": [[0, "clean"], [0, kind]], "rids": [rid, rid]})
    return {"driver": "rules", "world": world if isinstance(world, dict) else world.json(), "render": "clean",
            "items": items}


def layer_episode(rng, w, layers, n_rules):
    rules = c05.rules_for([l["name"] for l in layers])
    if len(rules) > n_rules:
        rules = rng.sample(rules, n_rules)
    items = []
    for i, r in enumerate(rules):
        rid = f"L{i}"
        for kind in KINDS:
            items.append({"op": "leval", "a": [0, kind], "rid": rid, "layers": layers, "rule": r})
        for kind in KINDS[1:]:
            items.append({"op": "law", "law": "rename", "as": [[0, "clean"], [0, kind]], "rids": [rid, rid]})
    return {"driver": "layers", "world": w.json(), "render": "clean", "items": items}


def label_episode(rng, w, n_calls=3):
    items = []
    for k in range(n_calls):
        mods = rng.sample(w.modules, min(rng.randint(1, 6), len(w.modules)))
        if rng.random() < 0.5:
            m = max(w.modules, key=len)
            mods = list({tuple(m[:j]) for j in range(1, len(m) + 1) if rng.random() < 0.6} | set(mods))[:8]
        items += c17.viz_items(rng, mods, k0=k, with_rename=True, render="clean")
    return {"driver": "labels", "world": w.json(), "render": "clean", "items": items}


FIXED = {"__init__", "*", "helper", "Thing", "thing", "handlers"}


def rename_project(p, rn):
    """The same abstract project with every path component renamed by the injective renaming rn."""
    c = lambda x: x if x in FIXED else rn.comp(x)
    n = lambda name: [c(x) for x in name]
    return {"root": c(p["root"]), "dirs": [n(d) for d in p["dirs"]],
            "files": [{"name": n(f["name"]), "py": f["py"]} for f in p["files"]],
            "stmts": [dict(s, file=n(s["file"]), module=n(s["module"]), names=[c(x) for x in s["names"]]) for s in p["stmts"]],
            "rel_dirs": [n(d) for d in p.get("rel_dirs", [])]}


def scan_pair_specs(ctx, rng):
    """Scan-level identity: each abstract project is scanned under a collision-free and under adversarial names
    (siblings that are string prefixes of one another, directories whose name starts with the root's name, external
    look-alikes of internal names) with the same configurations."""
    from harness import names, projgen
    from harness.checks import scan_common as sc

    pairs = []
    for _ in range(60 if ctx.quick else 1200):
        p = projgen.random_project(rng, max_depth=rng.choice([2, 3, 4]), n_stmts=rng.randint(6, 30), rel_abs=True)
        variants = []
        for mk in (names.rho_clean, names.rho_adversarial, names.rho_adversarial2, names.rho_case):
            rn = mk()
            q = rename_project(p, rn)
            ep = sc.ScanEpisode(q)
            subs = [d for d in q["dirs"] if len(d) > 1]
            idx = sorted(range(len(subs)), key=lambda i: p["dirs"][i + 1] if i + 1 < len(p["dirs"]) else [])[:3]
            ep.scan()
            ep.scan(ext=True)
            ep.scan(limit=1)
            for i in idx:
                ep.scan(mpath=subs[i])
                ep.scan(mpath=subs[i], ext=True)
            variants.append(ep.spec)
        pairs.append(variants)
    return pairs


def run(ctx):
    rng = random.Random(ctx.seed * 7919 + 14)
    mc = tlc.require_ok(tlc.run("MC_RuleSem.tla", "MC_RuleSem_W4.cfg" if ctx.quick else "MC_RuleSem_W5_ren.cfg",
                                workers=16, timeout=3000), "model checking the renaming invariance of RuleSem")
    # --- module rules
    rspecs = []
    states, _ = rc.emit_states("W4")
    for st in states:
        space = rc.full_single_space(st["modules"])
        rules = rng.sample(space, 120 if ctx.quick else 600)
        rspecs.append(rule_episode({"modules": st["modules"], "imports": st["imports"]}, rules))
    n_worlds = 40 if ctx.quick else 800
    for _ in range(n_worlds):
        w = random_world(rng, n_modules=rng.randint(8, 26))
        rspecs.append(rule_episode(w, rc.sampled_rules(rng, w.modules, 40, max_batch=3, strict_bias=0.5)))
    # --- layer rules
    lspecs = []
    made = 0
    while made < (40 if ctx.quick else 800):
        w = random_world(rng, n_modules=rng.randint(8, 24), n_imports=rng.randint(4, 50))
        tops = c05.tops_of(w)
        if len(tops) < 3:
            continue
        made += 1
        # layers defined by name lists, or some by name list and some by regular expression (the rule then names
        # layers of both kinds in one call)
        layers = c05.partitions(rng, tops, rng.randint(2, min(4, len(tops))), kinds=rng.choice(["names", "mixed"]))
        lspecs.append(layer_episode(rng, w, layers, 30))
    # --- plot labels
    vspecs = [label_episode(rng, random_world(rng, n_modules=rng.randint(6, 26), n_imports=rng.randint(0, 20)))
              for _ in range(60 if ctx.quick else 1200)]

    fails, cov_events, episodes_all, tr_states, tr_trans = [], 0, 0, 0, 0
    laws = 0
    n_evals = 0
    nontrivial = set()
    outs = {}
    for specs, module in ((rspecs, "Trace_Rules"), (lspecs, "Trace_Layers"), (vspecs, "Trace_Labels")):
        episodes = runner.run_specs(specs)
        tr = trace.validate(episodes, f"{module}.tla", f"{module}.cfg")
        fails += attach(tr, specs, episodes)
        cov_events += tr.events
        episodes_all += len(episodes)
        tr_states += tr.states
        tr_trans += tr.transitions
        n = sum(1 for ep in episodes for e in ep if e["k"] == "law" and e["law"] == "rename")
        n_evals += sum(1 for ep in episodes for e in ep if e["k"] in ("eval", "leval", "viz"))
        # non-trivial rename instance: the related evaluation failed with a message / labelled with at least one alias
        for ep in episodes:
            eouts = {}
            for e in ep:
                if e["k"] in ("eval", "leval"):
                    eouts.setdefault(e["rid"], []).append(e["out"])
                elif e["k"] == "viz":
                    eouts.setdefault(e["rid"], []).append("fail" if e["aliases"] else "pass")
            for e in ep:
                if e["k"] == "law" and e["law"] == "rename" and "fail" in eouts.get(e["rids"][0], []):
                    nontrivial.add(json.dumps([ep[0].get("modules"), ep[0].get("imports"), e["rids"][0], e["as"][1][-4:]]))
        outs[module] = {"episodes": len(episodes), "rename_law_instances": n,
                        "failing_or_labelled": sum(1 for ep in episodes for e in ep
                                                   if e.get("out") in ("fail", "ok"))}
        laws += n
    # --- scans: the same abstract project under three namings must conform (or not) in exactly the same way
    from harness.checks import scan_common as sc
    triples = scan_pair_specs(ctx, rng)
    flat = [v for t in triples for v in t]
    tr, seps, sfails = sc.run_and_validate(flat)
    cov_events += tr.events; episodes_all += len(seps); tr_states += tr.states; tr_trans += tr.transitions
    by_ep = {}
    for f in sfails:
        if f["prop"] != "MACHINERY":
            by_ep.setdefault(f["episode"], set()).add((f["clause"], json.dumps(f["event"].get("id") if isinstance(f["event"], dict) else None)))
        else:
            fails.append(f)
    scan_diffs = 0
    NV = 4      # namings per abstract project
    for t in range(len(triples)):
        sets = [by_ep.get(NV * t + k, set()) for k in range(NV)]
        if any(x != sets[0] for x in sets[1:]):
            scan_diffs += 1
            k = next(i for i in range(1, NV) if sets[i] != sets[0])
            fails.append({"prop": "C14", "clause": "scan-conformance-changes-under-renaming",
                          "detail": {"clean": sorted(sets[0]), "adversarial": sorted(sets[k])},
                          "event": {"renaming": ["clean", "adv", "adv2", "case"][k]}, "spec": flat[NV * t + k],
                          "episode_events": seps[NV * t + k]})
    outs["Trace_Scan"] = {"episodes": len(seps), "rename_law_instances": len(triples) * 3, "failing_or_labelled": 1,
                          "differences": scan_diffs}
    laws += len(triples) * 3
    if not all(v["rename_law_instances"] and v["failing_or_labelled"] for v in outs.values()):
        raise tlc.MachineryError(f"vacuous run: {outs}")
    cov = {"states": mc.distinct + tr_states, "transitions": mc.generated + tr_trans,
           "model_states": mc.distinct, "model_transitions": mc.generated,
           "traces_validated_against_impl": episodes_all, "trace_events": cov_events,
           "rename_law_instances": laws, "by_family": outs, "evaluations": n_evals + len(flat),
           "distinct_nontrivial": len(nontrivial) + sum(1 for ep in seps if any(e["k"] == "scan" and e["imports"] for e in ep)),
           "rule": "one case = one abstract <world, rule | layer rule | alias map> evaluated on the real code under two "
                   "injective component renamings and compared after mapping names back; the specification's own "
                   "verdict is checked for each rendering as well",
           "exhaustive": False,
           "exhaustive_part": "RuleSem!RenamingInvariant on every import relation of the bounded world (TLC); all 64 "
                              "import relations of W4 replayed under three renamings with sampled single rules",
           "samples": [rspecs[0]["items"][:5]]}
    return CheckResult(fails=fails, coverage=cov, assumptions=ASSUMPTIONS)


def replay(ctx, rp):
    spec = rp["spec"]
    if spec["driver"] == "scan":
        from harness.checks import scan_common as sc
        tr, eps, fs = sc.run_and_validate([spec], procs=1)
        fs = [dict(f, prop="C14", clause="scan-conformance-changes-under-renaming") for f in fs if f["prop"] != "MACHINERY"]
        return CheckResult(fails=fs, coverage={"replayed_events": tr.events})
    module = {"rules": "Trace_Rules", "layers": "Trace_Layers", "labels": "Trace_Labels"}[spec["driver"]]
    episodes = runner.run_specs([spec], 1)
    tr = trace.validate(episodes, f"{module}.tla", f"{module}.cfg", procs=1)
    return CheckResult(fails=attach(tr, [spec], episodes), coverage={"replayed_events": tr.events})
