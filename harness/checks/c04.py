"""C04 - modules and hierarchy mirror the scanned directory tree, named from root_path."""
from __future__ import annotations

import random

from harness import projgen, tlc
from harness.checks import scan_common as sc
from harness.checks import wild_common as wc
from harness.result import CheckResult

ASSUMPTIONS = [
    "projects stay inside the documented input language: no a.py next to a/, no dots in directory names, no symlinks "
    "inside the tree (a quarter of the random projects is reached through a root directory that is a symbolic link "
    "named differently from its target: names follow the directory name given); "
    "names with regex metacharacters only for entries that are never imported",
    "the sub-scan = restricted-root-scan law is judged for projects whose absolute imports are root-qualified or "
    "relative (Trace_Scan 'restrict'); names written relative to module_path's parent are checked to resolve by the "
    "direct scan clause (Scan!Adjust)",
    "the module-object entry point is driven with module objects whose __file__ points into the project and whose "
    "__name__ is the qualified name, the last component only, or an unrelated alias (what counts is the file)",
    "imports are judged as must <= observed <= may (Scan!MustImports / MayImports)",
]


def episode_for(project, rng, all_subs=False):
    ep = sc.ScanEpisode(project)
    if rng.random() < 0.4:
        # sub directories first, the root afterwards: the outcome of a scan must not depend on what was scanned before
        pre = [d for d in project["dirs"] if len(d) > 1]
        for d in rng.sample(pre, min(2, len(pre))):
            ep.scan(mpath=d)
    s0 = ep.scan()
    sm = ep.scan(entry="module")
    ep.law("entry", [s0, sm])
    # 'sub modules of X' on the scanned architecture = the modules whose dotted name extends X
    for i, rule in enumerate(sc.rules_above(sc.all_modules(project), 99, rng, 6)):
        ep.seval(s0, f"R{i}", rule)
    subs = [d for d in project["dirs"] if len(d) > 1]
    chosen = subs if all_subs else rng.sample(subs, min(3, len(subs)))
    chosen += [d for d in project.get("rel_dirs", []) if d not in chosen]     # directories with parent-relative names
    for d in chosen:
        sd = ep.scan(mpath=d)
        ep.law("restrict", [s0, sd])
        if rng.random() < 0.4:
            sdm = ep.scan(mpath=d, entry="module", modname=rng.choice(["qualified", "last", "alias"]))
            ep.law("entry", [sd, sdm])
    s9 = ep.scan()                      # the root once more, after all the sub scans
    ep.law("same", [s0, s9])
    return ep.spec


def run(ctx):
    rng = random.Random(ctx.seed * 7919 + 4)
    mc = sc.model_check(7 if ctx.quick else 11)
    projects, r_emit = sc.emit_projects(7 if ctx.quick else 10)
    specs = [episode_for(p, rng, all_subs=True) for p in projects]
    n_rand = 250 if ctx.quick else 5000
    for i in range(n_rand):
        p = projgen.random_project(rng, max_depth=rng.choice([2, 3, 4, 5]), odd=rng.random() < 0.3,
                                   externals=rng.random() < 0.5, rel_abs=True)
        if rng.random() < 0.25 and not p.get("links"):
            p["root_via_link"] = True       # root_path is a symbolic link named differently from its target
        specs.append(episode_for(p, rng))
    # real source trees found on this machine (harness/wild.py), abstracted independently of pytestarch
    wspecs, wtrees = wc.specs(ctx, random.Random(ctx.seed * 7919 + 100), "C04")
    specs += wspecs
    tr, episodes, fails = sc.run_and_validate(specs)
    # the repository's own suite: the scans it makes of its resource projects, validated by the same specification
    str_, sepisodes, sfails, smeta = sc.validate_suite_scans()
    fails = fails + sfails
    # the construction of the architecture from the module and import lists, as an algorithm (Graph.tla)
    from harness.checks import graph_common as gc
    gfails, gmeta, gmc, gtr = gc.run_all(ctx, 404)
    fails = fails + gfails
    st = sc.stats(episodes)
    if not st["law_instances"].get("restrict") or not st["law_instances"].get("entry"):
        raise tlc.MachineryError(f"vacuous or erroneous run: {st}")
    cov = {**gmeta, "real_source_trees": wtrees, "repository_suite_scans_validated": smeta.get("scans", 0), "repository_suite_scans_skipped": smeta.get("skipped", {}), "states": mc.distinct + tr.states + gmc.distinct + gtr.states, "transitions": mc.generated + tr.transitions + gmc.generated + gtr.transitions,
           "model_states": mc.distinct, "model_transitions": mc.generated,
           "traces_validated_against_impl": len(episodes), "trace_events": tr.events,
           "emitted_projects": len(projects), "random_projects": n_rand, **st,
           "evaluations": st["scans"], "distinct_nontrivial": st["scans_ok"],
           "rule": "one case = one scan <project tree with import statements, module_path, entry point>; every scan's "
                   "module set and import set is compared with Scan!InternalMods / MustImports..MayImports, sub scans "
                   "with the restricted root scan, module-object scans with path scans",
           "exhaustive": False,
           "exhaustive_part": f"all {len(projects)} projects reachable in the bounded model MC_Scan (sibling names a/ab) x "
                              "every module_path x both entry points",
           "samples": [episodes[0][:3]]}
    return CheckResult(fails=fails, coverage=cov, assumptions=ASSUMPTIONS)


replay = sc.replay
