"""C17 - plot labels: aliases replace the nearest aliased ancestor, every module labelled once, options passed on."""
from __future__ import annotations

import json
import random

from harness import runner, tlc, trace
from harness.result import CheckResult, attach
from harness.world import PREFIX_POOL, World, random_world

ASSUMPTIONS = [
    "observed at the call into the drawing backend: the names draw_networkx / spring_layout inside "
    "pytestarch.eval_structure.networkxgraph are replaced by recorders in the harness process only",
    "the text of a label <<source, rest>> is alias text + '.' + remaining components (harness render table); which "
    "source applies is decided by Labels!LabelSource in TLC",
    "an error 'names' a module when the module's dotted name occurs in the message as a maximal dotted-name token "
    "(name characters: word characters and '+' '-')",
    "rendering adv4 uses file names that are no identifiers ('api-x' next to 'api': characters that sort before the dot)",
    "drawing options are compared by repr(); only plain scalars are passed",
    "alias texts never end with '.<lower-case identifier>', so the text of a label determines which aliased module "
    "it was built from (rendered module names are lower case) - otherwise the back-projection would be ambiguous",
]

ALIAS_TEXTS = ["A", "B.C", "x+", "(y", "\\1", "L.M.N", "", "q", "[z]", "a|b", "$", "al ias", "r", "r.A", "*", "Z9"]
KW_POOL = [("node_size", 10), ("with_labels", False), ("font_size", 7), ("arrows", True), ("node_color", "red"),
           ("width", 1.5), ("alpha", 0.5)]


def model_check(big):
    r = tlc.run("MC_Labels.tla", f"MC_Labels_{'big' if big else 'small'}.cfg", workers=8, timeout=1200)
    return tlc.require_ok(r, "model checking MC_Labels")


def emit_states(big):
    r = tlc.run("MC_Labels.tla", f"MC_Labels_emit_{'big' if big else 'small'}.cfg", workers=1, timeout=1200)
    tlc.require_ok(r, "emitting MC_Labels states")
    st = r.printed.get("STATE", [])
    if len(st) != r.distinct:
        raise tlc.MachineryError("emitted states != distinct states")
    return st


def _kw(rng):
    return dict(rng.sample(KW_POOL, rng.randint(0, 3)))


SELF = "=SELF"      # an alias that is the module's own (rendered) name: renames nothing, but still is the most
                    # specific alias for everything below that module (and an unknown module stays unknown)


def _aliases(rng, mods, allow_self=False):
    texts = rng.sample(ALIAS_TEXTS, min(len(mods), len(ALIAS_TEXTS)))
    out = [{"mod": list(m), "text": t} for m, t in zip(mods, texts)]
    if allow_self:
        for a in out:
            roll = rng.random()
            if roll < 0.2:
                a["text"] = SELF
            elif roll < 0.4 and len(mods) > 1:
                # the alias text is the NAME OF ANOTHER aliased module (or that name plus a component): an alias is
                # applied once, to the module's own name - never to a label that another alias produced
                other = rng.choice([m for m in mods if list(m) != a["mod"]])
                a["text"] = "=NAMEOF"
                a["of"] = list(other)
                a["suffix"] = rng.choice(["", "", ".cs"])
    return out


def viz_items(rng, alias_mods, k0=0, with_rename=False, render=None):
    """One visualize call (plus the same call in another alias order)."""
    # (identity aliases make the back-projection of a label text ambiguous in a rendering-dependent way - a
    # look-alike sibling's own name plus a suffix can spell the module's name - so they stay out of the rename law)
    al = _aliases(rng, alias_mods, allow_self=not with_rename)
    kw = _kw(rng)
    sp = rng.choice([None, None, 0.5, 2])
    r0 = render or "ident"
    items = [{"op": "viz", "rid": f"V{k0}", "aliases": al, "kw": kw, "spacing": sp, "order": "asc", "render": r0},
             {"op": "viz", "rid": f"V{k0}o", "aliases": al, "kw": _kw(rng), "spacing": None, "order": "desc", "render": r0},
             {"op": "law", "law": "same", "as": [r0, r0], "rids": [f"V{k0}", f"V{k0}o"]}]
    if with_rename:      # C14: the same abstract call under the collision-free and the adversarial renamings
        for r2 in ("clean", "adv", "adv2", "adv3", "adv4"):
            if r2 != r0:
                items.append({"op": "viz", "rid": f"V{k0}", "aliases": al, "kw": kw, "spacing": sp, "render": r2})
                items.append({"op": "law", "law": "rename", "as": [r0, r2], "rids": [f"V{k0}", f"V{k0}"]})
    return items


def specs_for(ctx):
    rng = random.Random(ctx.seed * 7919 + 17)
    specs, meta = [], {}
    states = emit_states(big=not ctx.quick)
    meta["emitted_alias_maps"] = len(states)
    for st in states:
        w = {"modules": st["modules"], "imports": []}
        items = viz_items(rng, [tuple(m) for m in st["aliased"]], with_rename=True, render="clean")
        specs.append({"driver": "labels", "world": w, "render": "clean", "items": items})
    n_worlds = 150 if ctx.quick else 3000
    for i in range(n_worlds):
        prefixy = rng.random() < 0.35        # names as they are, from a pool whose members are prefixes of one another
        w = random_world(rng, n_modules=rng.randint(6, 30), n_imports=rng.randint(0, 30),
                         pool=PREFIX_POOL if prefixy else None)
        if rng.random() < 0.35:
            # a second (and third) top-level package next to the root - what an architecture looks like when external
            # libraries are included; alias maps then mention several packages in any insertion order
            extra = [("os",), ("os", "path"), ("xlib",), ("xlib", "sub"), ("xlib", "sub", "deep")]
            w = World(list(w.modules) + extra[:rng.choice([2, 5])], w.imports)
        items = []
        rnd = "ident" if prefixy else rng.choice(["ident", "clean", "adv", "adv2", "adv3", "adv4", "adv4"])
        for k in range(4):
            n = rng.randint(0, 6)
            mods = rng.sample(w.modules, min(n, len(w.modules)))
            if rng.random() < 0.5 and mods:      # nested aliases on purpose: alias an ancestor chain
                m = max(w.modules, key=len)
                mods = list({tuple(m[:j]) for j in range(1, len(m) + 1) if rng.random() < 0.6} | set(mods))[:8]
            if rng.random() < 0.15:              # an aliased module that does not exist
                p = rng.choice(w.modules)
                mods = mods + [tuple(p) + ("ghost",)]
            if prefixy and rng.random() < 0.4:   # ... whose name is a string prefix of an existing module's name
                cands = [tuple(m[:-1]) + (m[-1][:-1],) for m in w.modules if len(m) > 1 and len(m[-1]) > 1]
                cands = [g for g in cands if g not in set(map(tuple, w.modules))]
                if cands:
                    mods = mods + [rng.choice(cands)]
            items += viz_items(rng, mods, k0=k, with_rename=(k == 0), render=rnd)
        items.append({"op": "viz", "rid": "P", "aliases": None, "kw": _kw(rng), "spacing": rng.choice([None, 1])})
        spec = {"driver": "labels", "world": w.json(), "render": rnd, "items": items}
        roll = rng.random()
        if roll < 0.3:        # modules listed in another order, parent packages left implicit
            spec["order_seed"] = rng.randint(0, 10 ** 6)
        elif roll < 0.5:      # a level-limited architecture: aliases for modules below the limit name no module
            spec["level_limit"] = rng.randint(1, 2)
        specs.append(spec)
    meta["random_worlds"] = n_worlds
    return specs, meta


def run_and_validate(specs, procs=16):
    episodes = runner.run_specs(specs, procs)
    tr = trace.validate(episodes, "Trace_Labels.tla", "Trace_Labels.cfg", procs=procs)
    return tr, episodes, attach(tr, specs, episodes)


def run(ctx):
    mc = model_check(big=not ctx.quick)
    specs, meta = specs_for(ctx)
    tr, episodes, fails = run_and_validate(specs)
    viz = [e for ep in episodes for e in ep if e["k"] == "viz"]
    outs = {o: sum(1 for e in viz if e["out"] == o) for o in ("ok", "error")}
    nested = sum(1 for e in viz if e["out"] == "ok" and any(
        len([x for x in e["render"] if x["mod"] == lab["mod"]]) > 2 for lab in e["labels"]))
    if not outs["ok"] or not outs["error"] or not nested:
        raise tlc.MachineryError(f"vacuous run: {outs} nested={nested}")
    distinct = len({json.dumps([e["drawn_nodes"], e["aliases"], e["kw_in"], e["spacing_given"]], sort_keys=True)
                    for e in viz if e["aliases"]})
    cov = {"states": mc.distinct + tr.states, "transitions": mc.generated + tr.transitions,
           "model_states": mc.distinct, "model_transitions": mc.generated,
           "traces_validated_against_impl": len(episodes), "trace_events": tr.events,
           "visualize_calls": len(viz), "outcomes": outs, "calls_with_nested_aliases": nested,
           "labels_checked": sum(len(e["labels"]) for e in viz), "distinct_nontrivial": distinct,
           "evaluations": len(viz),
           "rule": "one case = <module tree, alias map (module -> alias text), drawing options>; non-trivial = at least "
                   "one alias; distinct by full content",
           "exhaustive": False,
           "exhaustive_part": f"all {meta['emitted_alias_maps']} alias maps over the model's module tree "
                              "(incl. aliases for non-existing modules), each under the collision-free and two adversarial renamings",
           "samples": [next(e for e in viz if e["out"] == "ok" and len(e["aliases"]) > 1)], **meta}
    return CheckResult(fails=fails, coverage=cov, assumptions=ASSUMPTIONS)


def replay(ctx, rp):
    tr, episodes, fails = run_and_validate([rp["spec"]], procs=1)
    return CheckResult(fails=fails, coverage={"replayed_events": tr.events})
