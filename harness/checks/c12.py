"""C12 - rule algebra: duality, negation, decomposition, 'anything' alias, monotonicity."""
from __future__ import annotations

import random

from harness.checks import rules_common as rc
from harness.episodes import RuleEpisode
from harness.result import CheckResult
from harness.world import World, candidate_imports, random_world

ASSUMPTIONS = [
    "laws are checked on the verdicts the real code produced (no reference model), related modules included",
    "Laws.tla: duality, negation, decomposition, monotonicity and the should-not batch law are proved with TLAPS for "
    "arbitrary denotations, import relations and rules; its operators are a textual copy of RuleSem's, and TLC checks on "
    "the bounded model that the copy and the original agree (MC_RuleSem!LawsCopyAgrees)",
    "partnership of rules (dual, negation, decomposition, alias) is re-derived by the specification's own operators",
    "single-edge additions: a second real architecture is built with one more import and observed to be exactly that",
]


def _episode(rng, world, rules, n_add, mono_fraction=1.0, render="ident"):
    ep = RuleEpisode(world, render=render)
    for r in rules:
        ep.with_partners(r)
    w = world if isinstance(world, World) else World(world["modules"], world["imports"])
    cand = [e for e in candidate_imports(w.modules) if e not in set(w.imports)]
    rng.shuffle(cand)
    for i, e in enumerate(cand[:n_add]):
        a2 = i + 1
        ep.addimport(0, a2, e)
        for r in rules:
            if r["verb"] in ("should", "should_not") and rng.random() < mono_fraction:
                ep.mono(r, 0, a2)
    return ep.spec


def specs_for(ctx):
    rng = random.Random(ctx.seed * 7919 + 12)
    specs, meta = [], {}
    # (R) the transition graph of the bounded model: every state, every single-edge addition
    states, _ = rc.emit_states("W4")
    meta["emitted_states_W4"] = len(states)
    for st in states:
        space = rc.full_single_space(st["modules"])
        rules = space if not ctx.quick else rng.sample(space, 260)
        specs.append(_episode(rng, {"modules": st["modules"], "imports": st["imports"]}, rules, n_add=99,
                              mono_fraction=0.5 if ctx.quick else 1.0))
    if not ctx.quick:
        states_b, _ = rc.emit_states("W5")
        for st in rng.sample(states_b, 800):
            space = rc.full_single_space(st["modules"])
            specs.append(_episode(rng, {"modules": st["modules"], "imports": st["imports"]}, rng.sample(space, 200), 3))
    # (T) random worlds, subjects/objects may be ancestors or descendants of one another, batches up to 3
    n_worlds = 50 if ctx.quick else 1200
    for _ in range(n_worlds):
        w = random_world(rng, n_modules=rng.randint(6, 20))
        rules = rc.sampled_rules(rng, w.modules, 40, max_batch=3, strict_bias=0.0)
        # names rendered as they are, collision-free, or as string prefixes / substrings of their siblings
        specs.append(_episode(rng, w, rules, n_add=2, render=rng.choice(["ident", "clean", "adv", "adv2"])))
    # worlds shaped like scanned trees: every package has an '__init__' module that imports and is imported
    n_init = 25 if ctx.quick else 500
    specs += rc.package_init_specs(rng, n_init, partners=True)
    meta["worlds_with_package_init_modules"] = n_init
    meta["random_worlds"] = n_worlds
    return specs, meta


def run(ctx):
    from harness import tlc
    proofs = tlc.tlaps_prove("Laws.tla")      # the algebra for arbitrary D, I, r (TLAPS); bound to RuleSem by LawsCopyAgrees
    mc = rc.model_check("W4" if ctx.quick else "W5")
    specs, meta = specs_for(ctx)
    tr, episodes, fails = rc.run_and_validate(specs)
    laws = {}
    for ep in episodes:
        for e in ep:
            if e["k"] == "law":
                laws[e["law"]] = laws.get(e["law"], 0) + 1
    evals, nontrivial = rc.nontrivial_count(episodes)
    if not all(laws.get(k) for k in ("dual", "neg", "decomp", "any", "mono")):
        from harness.tlc import MachineryError
        raise MachineryError(f"vacuous run: law events {laws}")
    sample = next(e for ep in episodes for e in ep if e["k"] == "law")
    cov = {"tlaps_obligations_proved": proofs["obligations"], "tlaps_wall_s": proofs["wall"],
           "states": mc.distinct + tr.states, "transitions": mc.generated + tr.transitions,
           "model_states": mc.distinct, "model_transitions": mc.generated,
           "traces_validated_against_impl": len(episodes), "trace_events": tr.events, "law_instances": laws,
           "evaluations": evals, "distinct_nontrivial": nontrivial,
           "rule": "one law instance = two or three real evaluations on one architecture (or one rule on two "
                   "architectures differing by one import); (M) all laws hold on every state/transition of the bounded "
                   "model for the whole single + pair-batch rule space",
           "exhaustive": False, "samples": [sample], **meta}
    return CheckResult(fails=fails, coverage=cov, assumptions=ASSUMPTIONS)


def replay(ctx, rp):
    tr, episodes, fails = rc.run_and_validate([rp["spec"]], procs=1)
    return CheckResult(fails=fails, coverage={"replayed_events": tr.events})
