"""C15 - evaluation is pure and independent of order, history and hash seed."""
from __future__ import annotations

import json
import os
import random
import subprocess
import sys
import tempfile
from concurrent.futures import ThreadPoolExecutor

from harness import projgen, runner, tlc, trace
from harness.checks import c05, c17
from harness.checks import wild_common as wc
from harness.checks import rules_common as rc
from harness.checks import scan_common as sc
from harness.episodes import RuleEpisode
from harness.result import CheckResult, attach
from harness.rulesapi import mk_rule
from harness.world import World, random_world

ASSUMPTIONS = [
    "architectures are observed as <modules, imports> before and after every call",
    "session replays: rule objects are built once and re-applied, all rule families share the same real architecture "
    "objects, and every Apply is compared with an isolated evaluation (fresh architecture, fresh rule object)",
    "hash seeds: the same episode specs are run in fresh interpreters with 8 values of PYTHONHASHSEED and the recorded "
    "traces (verdicts, parsed and raw messages, module and import sets) must be identical",
    "directory enumeration order is varied by replacing pathlib.Path.iterdir in the harness process with a seeded shuffle",
]

MODS = [["r"], ["r", "a"], ["r", "a", "x"], ["r", "b"], ["r", "c"]]
LAYERS = [{"name": "X", "kind": "names", "listed": [["r", "a"]]}, {"name": "Y", "kind": "names", "listed": [["r", "b"]]},
          {"name": "Z", "kind": "names", "listed": [["r", "c"]]}]
SEEDS = ["0", "1", "2", "3", "17", "99", "12345", "4294967295"]
FAMS = {"rules": "Trace_Rules", "layers": "Trace_Layers", "diagram": "Trace_Diagram", "labels": "Trace_Labels"}


def session_cfg(maxhist, maxarchs, nobjs, emit_len=None):
    base = open(f"{tlc.SPEC_DIR}/MC_Session_mc.cfg").read()
    c = base.replace("MaxHist = 4", f"MaxHist = {maxhist}").replace("MaxArchs = 2", f"MaxArchs = {maxarchs}")
    c = c.replace('ObjIds = {"o1", "o2"}', "ObjIds = {%s}" % ", ".join(f'"o{i}"' for i in range(1, nobjs + 1)))
    if emit_len is not None:
        c = c.replace("EMIT = FALSE", "EMIT = TRUE").replace("EmitLen = 0", f"EmitLen = {emit_len}")
        c = c.replace("INVARIANT Functional", "INVARIANT EmitHist\nINVARIANT Functional").replace("VIEW View\n", "")
    return tlc.write_cfg(c)


def simulated_histories(length, num, seed):
    r = tlc.run("MC_Session.tla", session_cfg(length, 4, 5, emit_len=length), workers=1, timeout=1800,
                simulate=f"num={num}", depth=length + 1, seed=seed)
    tlc.require_ok(r, "tlc -simulate on MC_Session")
    return r.printed.get("HIST", []), r


def permutation_specs(ctx, rng):
    """List-valued arguments given in another order: same configuration, must give the same outcome."""
    rspecs, lspecs, sspecs = [], [], []
    for _ in range(40 if ctx.quick else 600):
        w = random_world(rng, n_modules=rng.randint(6, 18))
        ep = RuleEpisode(w, render=rng.choice(["ident", "adv"]))
        for rule in rc.sampled_rules(rng, w.modules, 30, max_batch=3, strict_bias=0.3):
            if len(rule["subs"]) < 2 and len(rule["objs"]) < 2:
                continue
            r1 = ep.eval(rule, keep=True)
            perm = dict(rule, subs=list(reversed(rule["subs"])), objs=list(reversed(rule["objs"])))
            ep.spec["items"].append({"op": "eval", "a": 0, "rid": r1 + "p", "rule": perm, "keep": True})
            ep.law("same", [r1, r1 + "p"])
            # ... and with an entry listed twice (the configuration is the same set of modules)
            dup = dict(rule, subs=rule["subs"] + [rule["subs"][0]],
                       objs=(rule["objs"] + [rule["objs"][-1]]) if rule["objs"] else [])
            ep.spec["items"].append({"op": "eval", "a": 0, "rid": r1 + "d", "rule": dup, "keep": True})
            ep.law("same", [r1, r1 + "d"])
            # and the very same rule once more after everything else (history independence on one architecture)
            ep.spec["items"].append({"op": "eval", "a": 0, "rid": r1, "rule": rule, "keep": True})
        rspecs.append(ep.spec)
    # one rule object (regex, name or batch specification) re-applied to architectures with DIFFERENT module trees
    import re as _re
    from harness.names import dotted
    for _ in range(40 if ctx.quick else 600):
        w0 = random_world(rng, n_modules=rng.randint(8, 16), n_imports=rng.randint(5, 40))
        ws = [w0]
        for _v in range(2):      # variants of the same tree with some leaf modules (and their imports) missing
            leaves = [m for m in w0.leaves() if len(m) > 2]
            drop = set(rng.sample(leaves, min(len(leaves), rng.randint(1, 3))))
            ws.append(World([m for m in w0.modules if m not in drop],
                            [e for e in w0.imports if e[0] not in drop and e[1] not in drop]))
        spec = {"driver": "rules", "world": ws[0].json(), "render": "ident", "items": [],
                "more_worlds": {"1": ws[1].json(), "2": ws[2].json()}}
        common = [m for m in ws[0].modules if m in ws[1].modules and m in ws[2].modules and len(m) > 1]
        for k in range(8):
            if len(common) < 2:
                break
            a, b = rng.sample(common, 2)
            pat = rng.choice([_re.escape(dotted(a)), _re.escape(dotted(a[:-1])) + r"\.[^.]+$", r".*\." + _re.escape(a[-1]) + "$",
                              r"r\.zzz_matches_nothing.*"])      # the last one: a lookup error, every time
            side = [{"kind": "regex", "name": ["regex"], "matches": [], "pat": pat}]
            other = [{"kind": rng.choice(["named", "sub"]), "name": list(b), "matches": []}]
            rule = mk_rule(rng.choice(["should", "should_only", "should_not"]), rng.choice(["import", "imported"]),
                           rng.random() < 0.5, side if k % 2 else other, other if k % 2 else side)
            order = [0, 1, 2, 0, 2]
            rng.shuffle(order)
            for n in order:
                spec["items"].append({"op": "eval", "a": n, "rid": f"X{k}", "rule": rule, "obj": f"o{k}", "fresh": True,
                                      "keep": True})
        rspecs.append(spec)
    made = 0
    while made < (30 if ctx.quick else 500):
        w = random_world(rng, n_modules=rng.randint(8, 22), n_imports=rng.randint(4, 40))
        tops = c05.tops_of(w)
        if len(tops) < 3:
            continue
        made += 1
        layers = c05.partitions(rng, tops, rng.randint(2, min(4, len(tops))), kinds="mixed")
        lspecs.append(c05._episode(rng, w, [layers], n_rules=30))
    for _ in range(40 if ctx.quick else 600):
        p = projgen.random_project(rng, max_depth=rng.choice([2, 3, 4]), odd=rng.random() < 0.3)
        ep = sc.ScanEpisode(p)
        s0 = ep.scan()
        for k in range(3):
            ep.law("same", [s0, ep.scan(shuffle=rng.randint(0, 10 ** 6))])
        entries = [d for d in p["dirs"] if len(d) > 1] + [f["name"] for f in p["files"]]
        if len(entries) >= 2:
            a, b = rng.sample(entries, 2)
            pa = sc.glob_shapes(p, a, rng)[rng.choice(["*text", "text*", "*text*"])]
            pb = sc.glob_shapes(p, b, rng)[rng.choice(["*text", "text", "*text*"])]
            x1 = ep.scan(excl={"kind": "glob", "patterns": [pa, pb]})
            x2 = ep.scan(excl={"kind": "glob", "patterns": [pb, pa]}, shuffle=rng.randint(0, 10 ** 6))
            ep.law("same", [x1, x2])
            # regular expressions, one of them with an inline global flag, listed in both orders
            import re as _re2
            ra = "(?i).*/" + _re2.escape(a[-1].upper()) + r"(\.py)?$"
            rb = ".*/" + _re2.escape(b[-1].upper()) + r"(\.py)?$"
            y1 = ep.scan(excl={"kind": "regex", "patterns": [ra, rb]})
            y2 = ep.scan(excl={"kind": "regex", "patterns": [rb, ra]})
            ep.law("same", [y1, y2])
        e1 = ep.scan(ext=True)
        ep.law("same", [e1, ep.scan(ext=True, shuffle=rng.randint(0, 10 ** 6))])
        sspecs.append(ep.spec)
    # trees in which one directory is a symbolic link to another directory of the tree (= the same content under a
    # second name): whichever of the two names the enumeration reaches first, both are scanned
    for _ in range(25 if ctx.quick else 400):
        p = projgen.add_link(projgen.random_project(rng, max_depth=rng.choice([2, 3, 4]), n_stmts=rng.randint(4, 25)), rng)
        if p is None:
            continue
        ep = sc.ScanEpisode(p)
        s0 = ep.scan()
        for k in range(3):
            ep.law("same", [s0, ep.scan(shuffle=rng.randint(0, 10 ** 6))])
        lim = rng.choice([None, 0, 1, 2])
        e1 = ep.scan(ext=True, limit=lim)
        ep.law("same", [e1, ep.scan(ext=True, limit=lim, shuffle=rng.randint(0, 10 ** 6))])
        for i, rule in enumerate(sc.rules_above(sc.all_modules(p), 99, rng, 6)):
            ep.seval(s0, f"R{i}", rule)
        sspecs.append(ep.spec)
    return rspecs, lspecs, sspecs


def seed_specs(ctx, rng):
    """A mixed bag of episodes to be run under several hash seeds."""
    specs = []
    for _ in range(12 if ctx.quick else 120):
        w = random_world(rng, n_modules=rng.randint(8, 20), n_imports=rng.randint(10, 50))
        # (renderings: also names that differ from one another in letter case only, or are prefixes of one another -
        # message lines that compare equal under some normalisation must still come in one fixed order)
        ep = RuleEpisode(w, render=rng.choice(["ident", "case", "case", "adv"]))
        for rule in rc.sampled_rules(rng, w.modules, 25, max_batch=3, strict_bias=0.5):
            ep.eval(rule)
        specs.append(ep.spec)
        tops = c05.tops_of(w)
        if len(tops) >= 3:
            layers = c05.partitions(rng, tops, rng.randint(2, min(4, len(tops))), kinds="mixed")
            specs.append(c05._episode(rng, w, [layers], n_rules=20, laws=False))
        p = projgen.random_project(rng, max_depth=3, n_stmts=rng.randint(5, 30))
        se = sc.ScanEpisode(p)
        s0 = se.scan()
        se.scan(ext=True)
        se.scan(limit=1)
        for i, rule in enumerate(sc.rules_above(sc.all_modules(p), 99, rng, 8)):
            se.seval(s0, f"R{i}", rule)
        specs.append(se.spec)
        specs.append({"driver": "labels", "world": w.json(), "render": "ident",
                      "items": c17.viz_items(rng, rng.sample(w.modules, min(4, len(w.modules))))})
    return specs


def label_specs(ctx, rng):
    out = []
    for _ in range(40 if ctx.quick else 600):
        w = random_world(rng, n_modules=rng.randint(6, 18), n_imports=rng.randint(0, 15))
        items = []
        for k in range(5):
            items += [it for it in c17.viz_items(rng, rng.sample(w.modules, min(rng.randint(1, 5), len(w.modules))), k0=k)
                      if it["op"] == "viz"]
        out.append({"driver": "labels", "world": w.json(), "render": "ident", "items": items})
    return out


def rule_order_specs(ctx, rng):
    out = []
    for _ in range(40 if ctx.quick else 1000):
        w = random_world(rng, n_modules=rng.randint(6, 16), n_imports=rng.randint(5, 40))
        ep = RuleEpisode(w)
        rules = rc.sampled_rules(rng, w.modules, 25, max_batch=2, strict_bias=0.5)
        # the same subject spelled as 'named' and as 'sub modules of', in 'anything' rules and in explicit ones
        for m in rng.sample(w.modules, min(4, len(w.modules))):
            for d in ("import", "imported"):
                for kind in ("named", "sub"):
                    f = {"kind": kind, "name": list(m), "matches": []}
                    rules.append(mk_rule("should_not", d, False, [f], [], any_=True))
                    rules.append(mk_rule("should_not", d, True, [f], [f]))
        rng.shuffle(rules)
        for r in rules:
            ep.eval(r)
        a = ep.spec
        b = dict(a, items=list(reversed(a["items"])))
        out.append((a, b))
    return out


def order_specs(ctx, rng):
    out = []
    for _ in range(40 if ctx.quick else 1000):
        p = projgen.random_project(rng, max_depth=rng.choice([2, 3, 4]), n_stmts=rng.randint(6, 30), rel_abs=True)
        ep = sc.ScanEpisode(p)
        subs = [d for d in p["dirs"] if len(d) > 1]
        for d in rng.sample(subs, min(3, len(subs))):
            ep.scan(mpath=d)
            if rng.random() < 0.3:
                ep.scan(mpath=d, ext=True)
        ep.scan()
        ep.scan(ext=True)
        for k in (0, 1, 2, 3):
            ep.scan(limit=k)
        if subs:
            ep.scan(mpath=subs[0], limit=1)
        a = ep.spec
        b = dict(a, items=list(reversed(a["items"])))
        out.append((a, b))
    return out


def shadow_specs(ctx, rng):
    """Trees in which a module FILE stands next to a PACKAGE of the same name (x.py next to x/ - legal, unusual, and
    outside the input language of the scan oracle, DESIGN section 5 guard 4).  Whatever such a tree means, it means the
    same under every directory enumeration order: the scans below are only compared with each other."""
    out = []
    for _ in range(30 if ctx.quick else 600):
        p = projgen.random_project(rng, max_depth=rng.choice([2, 3]), n_stmts=rng.randint(6, 24), odd=False)
        files = [f["name"] for f in p["files"] if f["py"] and f["name"][-1] != "__init__" and f["name"][-1].isidentifier()]
        dirs = {tuple(d) for d in p["dirs"]}
        files = [f for f in files if tuple(f) not in dirs]
        if not files:
            continue
        f = rng.choice(files)
        p = dict(p, dirs=p["dirs"] + [list(f)], files=p["files"] + [{"name": list(f) + ["inner"], "py": True}],
                 stmts=list(p["stmts"]))
        importable = [m["name"] for m in p["files"] if m["py"] and all(c.isidentifier() for c in m["name"])]
        for src in (list(f), list(f) + ["inner"]):
            t = rng.choice(importable)
            p["stmts"].append({"file": src, "form": "import", "level": 0, "module": list(t), "names": [], "pos": [],
                               "lay": "line", "alias": False, "grp": None})
        ep = sc.ScanEpisode(p)
        ep.scan()
        for _k in range(5):
            ep.scan(shuffle=rng.randint(0, 10 ** 6))
        out.append(ep.spec)
    return out


def _edges_of(world, seed):
    """All edges (with their hierarchy flag) and nodes of the real graph built from one listing order."""
    from pytestarch.eval_structure.networkxgraph import NetworkxGraph
    from pytestarch.eval_structure_generation.file_import.import_types import AbsoluteImport
    from harness.names import dotted

    rnd = random.Random(seed)
    mods = [dotted(m) for m in world["modules"]]
    imps = [(dotted(u), dotted(v)) for u, v in world["imports"]]
    if seed is not None:
        rnd.shuffle(mods)
        rnd.shuffle(imps)
    g = NetworkxGraph(mods, [AbsoluteImport(u, v) for u, v in imps])._graph
    return sorted(g.nodes), sorted((u, v, bool(d.get("inherits"))) for u, v, d in g.edges(data=True))


def _lkey(e):
    """Outcome of a layer-rule evaluation up to the order of lines and of the objects named in a line."""
    return (e["out"], sorted(map(str, e.get("real", []))),
            sorted(str((m.get("other"), m.get("sub"), sorted(map(str, m.get("objs", []))))) for m in e.get("miss", [])))


def listing_order_cases(ctx, rng, only=None):
    diffs, n = [], 0
    worlds = []
    if only is not None:
        worlds = [only]
    else:
        for _ in range(150 if ctx.quick else 3000):
            w = random_world(rng, n_modules=rng.randint(5, 14), n_imports=rng.randint(3, 25))
            imports = [list(map(list, e)) for e in w.imports]
            mods = [list(m) for m in w.modules]
            # packages importing their own direct sub modules, each of which is also imported by someone else
            for m in rng.sample(mods, min(3, len(mods))):
                if len(m) > 1:
                    imports.append([m[:-1], m])
                    imports.append([rng.choice(mods), m])
            worlds.append({"modules": mods, "imports": [e for e in imports if e[0] != e[1]]})
    for w in worlds:
        seeds = [None] + [rng.randint(0, 10 ** 6) for _ in range(4)]
        ref = _edges_of(w, seeds[0])
        n += 1
        for sd in seeds[1:]:
            got = _edges_of(w, sd)
            if got != ref:
                diffs.append({"world": w, "seeds": [seeds[0], sd],
                              "diff": {"only_first": [e for e in ref[1] if e not in got[1]][:5],
                                       "only_second": [e for e in got[1] if e not in ref[1]][:5]}})
                break
    return diffs, n


def run_under_seeds(specs):
    root = tlc.scratch_root()
    fd, sp = tempfile.mkstemp(suffix=".json", dir=root)
    with os.fdopen(fd, "w") as f:
        json.dump(specs, f)

    def one(seed):
        out = os.path.join(root, f"seed-{seed}.json")
        env = dict(os.environ, PYTHONHASHSEED=seed, PYTHONPATH="/verif:" + os.environ.get("PYTHONPATH", ""))
        p = subprocess.run([sys.executable, "-m", "harness.seedrun", sp, out], env=env, cwd="/verif",
                           stdout=subprocess.PIPE, stderr=subprocess.STDOUT, text=True, timeout=3000)
        if p.returncode != 0:
            raise tlc.MachineryError(f"seed run {seed} failed:\n{p.stdout[-2000:]}")
        return json.load(open(out))

    with ThreadPoolExecutor(max_workers=8) as ex:
        return dict(zip(SEEDS, ex.map(one, SEEDS)))


def run(ctx):
    rng = random.Random(ctx.seed * 7919 + 15)
    depth = 4 if ctx.quick else 5
    mc = tlc.require_ok(tlc.run("MC_Session.tla", session_cfg(depth, 2, 2), workers=16, timeout=3000,
                                coverage=ctx.quick), "model checking MC_Session")
    if ctx.quick:
        tlc.require_actions_taken(mc, ["DoNew", "DoApply", "DoGrow", "DoViz", "DoQuery"], "MC_Session")
    # vacuity guard: some reachable state pairs a rule with the graph question it is built from (the antecedent of
    # RulesReportQueries) - the guard invariant must be refuted
    gcfg = open(session_cfg(4, 2, 2)).read().replace("INVARIANT VizTotal", "INVARIANT VizTotal\nINVARIANT NoRuleMeetsItsQuery")
    g = tlc.run("MC_Session.tla", tlc.write_cfg(gcfg), workers=16, timeout=3000)
    if "NoRuleMeetsItsQuery" not in g.violated:
        raise tlc.MachineryError("vacuity guard: no state of MC_Session pairs a rule with its graph question")
    fails, events, n_traces, tr_states, tr_trans = [], 0, 0, 0, 0
    # (R) long interleavings generated by TLC, replayed on shared real objects
    hists, sim = simulated_histories(40, 4 if ctx.quick else 120, seed=ctx.seed + 7)
    sspecs = [{"driver": "session", "modules": MODS, "layers": LAYERS, "hist": h} for h in hists]
    souts = runner.run_specs(sspecs)
    applies = 0
    distinct_applies = set()
    for fam, module in FAMS.items():
        eps = [o[fam] for o in souts]
        idx = [i for i, e in enumerate(eps) if e]
        if not idx:
            continue
        tr = trace.validate([eps[i] for i in idx], f"{module}.tla", f"{module}.cfg")
        fails += attach(tr, [sspecs[i] for i in idx], [eps[i] for i in idx])
        events += tr.events; n_traces += len(idx); tr_states += tr.states; tr_trans += tr.transitions
        applies += sum(1 for e in eps for x in e if "fresh_same" in x)
        for e in eps:          # distinct <configuration, architecture> pairs applied, with at least one import present
            arch = {}
            for x in e:
                if x["k"] in ("arch", "addimport"):
                    arch[x.get("a2") or x["a"]] = json.dumps(x["imports"])
                elif "fresh_same" in x and arch.get(x["a"], "[]") != "[]":
                    distinct_applies.add((fam, x["rid"], arch[x["a"]]))
    # (T) permutations of list-valued arguments, shuffled directory enumeration, re-evaluation
    rspecs, lspecs, scspecs = permutation_specs(ctx, rng)
    # real source trees (harness/wild.py): scanned again under a shuffled directory enumeration, through both entry points
    wspecs, wtrees = wc.specs(ctx, random.Random(ctx.seed * 7919 + 100), "C15", n_quick=3)
    scspecs = scspecs + wspecs
    laws = 0
    for specs, module in ((rspecs, "Trace_Rules"), (lspecs, "Trace_Layers"), (scspecs, "Trace_Scan")):
        eps = runner.run_specs(specs)
        tr = trace.validate(eps, f"{module}.tla", f"{module}.cfg", max_events_per_batch=1500)
        fails += attach(tr, specs, eps)
        events += tr.events; n_traces += len(eps); tr_states += tr.states; tr_trans += tr.transitions
        laws += sum(1 for ep in eps for e in ep if e["k"] == "law" and e["law"] == "same")
    # (S) hash seeds
    hspecs = seed_specs(ctx, rng)
    by_seed = run_under_seeds(hspecs)
    ref = by_seed[SEEDS[0]]
    seed_diffs = 0
    for seed in SEEDS[1:]:
        for i, (a, b) in enumerate(zip(ref, by_seed[seed])):
            if a != b:
                seed_diffs += 1
                k = next((n for n, (x, y) in enumerate(zip(a, b)) if x != y), 0)
                fails.append({"prop": "C15", "clause": "trace-depends-on-hash-seed", "detail": {"seed": seed, "event": k},
                              "event": {"seed0": a[k] if k < len(a) else None, "other": b[k] if k < len(b) else None},
                              "spec": hspecs[i], "episode_events": None})
                break
    # (O) the same scans of one project in two different orders (sub directories first / root first, different
    # configurations interleaved): the result of each scan must not depend on what was scanned before it
    ospecs = order_specs(ctx, rng)
    fwd = runner.run_specs([a for a, _ in ospecs])
    bwd = runner.run_specs([b for _, b in ospecs])
    order_diffs = 0
    for (a_spec, b_spec), ea, eb in zip(ospecs, fwd, bwd):
        ra = {e["id"]: (e["out"], e["modules"], e["imports"]) for e in ea if e["k"] == "scan"}
        rb = {e["id"]: (e["out"], e["modules"], e["imports"]) for e in eb if e["k"] == "scan"}
        bad = sorted(k for k in ra if ra[k] != rb.get(k))
        if bad:
            order_diffs += 1
            fails.append({"prop": "C15", "clause": "scan-result-depends-on-earlier-scans", "detail": {"scans": bad},
                          "event": {"scan": bad[0], "first_order": ra[bad[0]], "other_order": rb.get(bad[0])},
                          "spec": {"driver": "scan-orders", "a": a_spec, "b": b_spec}, "episode_events": None})
    # (O1b) a module file next to a package of the same name, scanned under several directory enumeration orders
    shspecs = shadow_specs(ctx, rng)
    shadow_diffs = 0
    for sp, evs in zip(shspecs, runner.run_specs(shspecs)):
        obs = [(e["out"], e["modules"], e["imports"]) for e in evs if e["k"] == "scan"]
        if any(o != obs[0] for o in obs[1:]):
            shadow_diffs += 1
            k = next(i for i, o in enumerate(obs) if o != obs[0])
            fails.append({"prop": "C15", "clause": "scan-of-a-module-file-next-to-a-package-depends-on-the-listing-order",
                          "detail": {"first": obs[0][0], "differs_at_scan": k},
                          "event": {"sorted_listing": {"modules": obs[0][1], "imports": obs[0][2]},
                                    "other_listing": {"modules": obs[k][1], "imports": obs[k][2]}},
                          "spec": {"driver": "shadow", "a": sp}, "episode_events": None})
    # (O2) the same module rules on one architecture in two evaluation orders (fresh rule objects): state that leaks
    # between rule objects or through the process shows up as a rule whose outcome depends on what ran before it
    rpairs = rule_order_specs(ctx, rng)
    ra_eps = runner.run_specs([a for a, _ in rpairs])
    rb_eps = runner.run_specs([b for _, b in rpairs])
    rule_order_diffs = 0
    for (a_spec, b_spec), ea, eb in zip(rpairs, ra_eps, rb_eps):
        oa = {e["rid"]: (e["out"], e["real"], e["miss"]) for e in ea if e["k"] == "eval"}
        ob = {e["rid"]: (e["out"], e["real"], e["miss"]) for e in eb if e["k"] == "eval"}
        bad = sorted(k for k in oa if oa[k] != ob.get(k))
        if bad:
            rule_order_diffs += 1
            fails.append({"prop": "C15", "clause": "rule-outcome-depends-on-evaluation-order", "detail": {"rules": bad[:5]},
                          "event": {"rule": bad[0], "first_order": oa[bad[0]], "other_order": ob.get(bad[0])},
                          "spec": {"driver": "rule-orders", "a": a_spec, "b": b_spec}, "episode_events": None})
    # (O3) likewise for layer rules and visualize() calls: the episodes of the permutation part, items reversed
    fam_order_diffs = 0
    for specs_f, kind in ((lspecs, "leval"), (label_specs(ctx, rng), "viz")):
        fa = runner.run_specs(specs_f)
        rev = [dict(sp, items=[it for it in reversed(sp["items"]) if it["op"] != "law"]) for sp in specs_f]
        fb = runner.run_specs(rev)
        for sp, spr, ea, eb in zip(specs_f, rev, fa, fb):
            oa, ob = {}, {}
            for evs, o in ((ea, oa), (eb, ob)):
                for e in evs:
                    if e["k"] == kind:
                        o.setdefault(e["rid"] + "@" + e["a"].split(".A")[-1], []).append(
                            (e["out"], e.get("real"), e.get("miss"), e.get("labels")))
            bad = sorted(k for k in oa if sorted(map(str, oa[k])) != sorted(map(str, ob.get(k, []))))
            if bad:
                fam_order_diffs += 1
                fails.append({"prop": "C15", "clause": "outcome-depends-on-evaluation-order", "detail": {"calls": bad[:5]},
                              "event": {"call": bad[0], "first_order": oa[bad[0]], "other_order": ob.get(bad[0])},
                              "spec": {"driver": "family-orders", "a": sp, "b": spr, "kind": kind}, "episode_events": None})
    # (O4) the same layer rules with every list argument reversed (object layers of a rule, modules of a layer): the
    # order in which layers or modules are listed is no part of a rule's meaning
    def _rev_lists(sp):
        items = []
        for it in sp["items"]:
            it = dict(it)
            if it.get("op") == "leval":
                it["rule"] = dict(it["rule"], objs=list(reversed(it["rule"]["objs"])))
                it["layers"] = [dict(l, listed=list(reversed(l["listed"]))) for l in it["layers"]]
            items.append(it)
        return dict(sp, items=items)
    la = runner.run_specs(lspecs)
    lb = runner.run_specs([_rev_lists(sp) for sp in lspecs])
    list_order_diffs = 0
    for sp, ea, eb in zip(lspecs, la, lb):
        oa = {e["rid"] + "@" + e["a"]: _lkey(e) for e in ea if e["k"] == "leval"}
        ob = {e["rid"] + "@" + e["a"]: _lkey(e) for e in eb if e["k"] == "leval"}
        bad = sorted(k for k in oa if oa[k] != ob.get(k))
        if bad:
            list_order_diffs += 1
            fails.append({"prop": "C15", "clause": "layer-rule-outcome-depends-on-the-order-of-a-list-argument",
                          "detail": {"calls": bad[:5]},
                          "event": {"call": bad[0], "as_listed": oa[bad[0]], "lists_reversed": ob.get(bad[0])},
                          "spec": {"driver": "list-orders", "a": sp}, "episode_events": None})
    # (L) graph construction must not depend on the ORDER of the module list and the import list (which is what the
    # directory enumeration order turns into) - also when a package imports its own direct sub module, which real
    # scans produce for 'a.py' next to 'a/' (outside the scan generators' input language, so it is covered here)
    # the construction of an architecture as an algorithm (Graph.tla): TLC explores every processing order of the
    # module and import lists; the real graph is built in several orders and compared with the order-free result
    from harness.checks import graph_common as gc
    gfails, gmeta, gmc, gtr = gc.run_all(ctx, 1515)
    fails = fails + gfails
    listing_diffs, listing_cases = listing_order_cases(ctx, rng)
    for d in listing_diffs:
        fails.append({"prop": "C15", "clause": "architecture-depends-on-the-order-of-modules-or-imports", "detail": d["diff"],
                      "event": d["diff"], "spec": {"driver": "listing", "world": d["world"], "seeds": d["seeds"]},
                      "episode_events": None})
    # the reference traces must also be accepted by the specifications
    by_driver = {}
    for spec, ep in zip(hspecs, ref):
        by_driver.setdefault(spec["driver"], []).append(ep)
    if not applies or not laws:
        raise tlc.MachineryError(f"vacuous run: applies={applies} same-laws={laws}")
    cov = {**gmeta, "real_source_trees": wtrees, "states": mc.distinct + tr_states + gmc.distinct + gtr.states,
           "transitions": mc.generated + tr_trans + gmc.generated + gtr.transitions,
           "model_states": mc.distinct, "model_transitions": mc.generated,
           "traces_validated_against_impl": n_traces, "trace_events": events,
           "simulated_histories": len(hists), "history_length": 40, "applies_compared_with_isolated_evaluation": applies,
           "same_law_instances": laws, "hash_seeds": SEEDS, "episodes_per_seed": len(hspecs),
           "seed_differences": seed_diffs, "listing_order_cases": listing_cases, "layer_and_label_order_differences": fam_order_diffs, "layer_list_order_differences": list_order_diffs, "rule_order_pairs": len(rpairs), "rule_order_differences": rule_order_diffs, "scan_order_pairs": len(ospecs), "shadowed_module_trees": len(shspecs), "shadowed_module_tree_differences": shadow_diffs, "scan_order_differences": order_diffs, "evaluations": applies + laws + len(hspecs) * len(SEEDS),
           "distinct_applies_on_nonempty_architectures": len(distinct_applies),
           "distinct_nontrivial": len(distinct_applies) + laws,
           "rule": "one case = one Apply inside a 40-step history (compared with the isolated evaluation), one "
                   "permuted / re-ordered / re-enumerated call (law 'same'), or one episode under 8 hash seeds; non-trivial "
                   "and distinct = distinct <family, configuration, architecture with at least one import> applied in a "
                   "session, plus the 'same' law instances",
           "exhaustive": False,
           "exhaustive_part": f"Session.tla: all histories of New/Apply/Grow/Visualize/Query up to length {depth} over the "
                              "catalogue (TLC): Pure, ObjectStable, Functional, Reapply, RulesReportQueries, VizTotal",
           "samples": [hists[0][:6]]}
    return CheckResult(fails=fails, coverage=cov, assumptions=ASSUMPTIONS)


def replay(ctx, rp):
    spec = rp["spec"]
    if spec["driver"] == "session":
        out = runner.run_specs([spec], 1)[0]
        fails, n = [], 0
        for fam, module in FAMS.items():
            if out[fam]:
                tr = trace.validate([out[fam]], f"{module}.tla", f"{module}.cfg", procs=1)
                fails += attach(tr, [spec], [out[fam]]); n += tr.events
        return CheckResult(fails=fails, coverage={"replayed_events": n})
    if spec["driver"] == "family-orders":
        kind = spec["kind"]
        ea, eb = runner.run_specs([spec["a"]], 1)[0], runner.run_specs([spec["b"]], 1)[0]
        oa, ob = {}, {}
        for evs, o in ((ea, oa), (eb, ob)):
            for e in evs:
                if e["k"] == kind:
                    o.setdefault(e["rid"] + "@" + e["a"].split(".A")[-1], []).append(
                        (e["out"], e.get("real"), e.get("miss"), e.get("labels")))
        bad = sorted(k for k in oa if sorted(map(str, oa[k])) != sorted(map(str, ob.get(k, []))))
        fails = [{"prop": "C15", "clause": "outcome-depends-on-evaluation-order", "detail": {"calls": bad[:5]},
                  "event": None, "spec": spec, "episode_events": None}] if bad else []
        return CheckResult(fails=fails, coverage={"replayed_calls": len(oa)})
    if spec["driver"] == "rule-orders":
        ea, eb = runner.run_specs([spec["a"]], 1)[0], runner.run_specs([spec["b"]], 1)[0]
        oa = {e["rid"]: (e["out"], e["real"], e["miss"]) for e in ea if e["k"] == "eval"}
        ob = {e["rid"]: (e["out"], e["real"], e["miss"]) for e in eb if e["k"] == "eval"}
        bad = sorted(k for k in oa if oa[k] != ob.get(k))
        fails = [{"prop": "C15", "clause": "rule-outcome-depends-on-evaluation-order", "detail": {"rules": bad[:5]},
                  "event": None, "spec": spec, "episode_events": None}] if bad else []
        return CheckResult(fails=fails, coverage={"replayed_rules": len(oa)})
    if spec["driver"] == "graph":
        from harness.checks import scan_common as sc
        return sc.replay(ctx, rp)
    if spec["driver"] == "shadow":
        evs = runner.run_specs([spec["a"]], 1)[0]
        obs = [(e["out"], e["modules"], e["imports"]) for e in evs if e["k"] == "scan"]
        fails = [{"prop": "C15", "clause": "scan-of-a-module-file-next-to-a-package-depends-on-the-listing-order",
                  "detail": {}, "event": None, "spec": spec, "episode_events": None}] if any(o != obs[0] for o in obs[1:]) else []
        return CheckResult(fails=fails, coverage={"replayed_scans": len(obs)})
    if spec["driver"] == "list-orders":
        sp = spec["a"]
        rv = dict(sp, items=[dict(it, rule=dict(it["rule"], objs=list(reversed(it["rule"]["objs"]))),
                                  layers=[dict(l, listed=list(reversed(l["listed"]))) for l in it["layers"]])
                             if it.get("op") == "leval" else it for it in sp["items"]])
        ea, eb = runner.run_specs([sp], 1)[0], runner.run_specs([rv], 1)[0]
        oa = {e["rid"] + "@" + e["a"]: _lkey(e) for e in ea if e["k"] == "leval"}
        ob = {e["rid"] + "@" + e["a"]: _lkey(e) for e in eb if e["k"] == "leval"}
        bad = sorted(k for k in oa if oa[k] != ob.get(k))
        fails = [{"prop": "C15", "clause": "layer-rule-outcome-depends-on-the-order-of-a-list-argument",
                  "detail": {"calls": bad[:5]}, "event": None, "spec": spec, "episode_events": None}] if bad else []
        return CheckResult(fails=fails, coverage={"replayed_calls": len(oa)})
    if spec["driver"] == "listing":
        diffs, _ = listing_order_cases(ctx, random.Random(0), only=spec["world"])
        fails = [{"prop": "C15", "clause": "architecture-depends-on-the-order-of-modules-or-imports", "detail": d["diff"],
                  "event": d["diff"], "spec": spec, "episode_events": None} for d in diffs]
        return CheckResult(fails=fails, coverage={"replayed_listings": 5})
    if spec["driver"] == "scan-orders":
        ea, eb = runner.run_specs([spec["a"]], 1)[0], runner.run_specs([spec["b"]], 1)[0]
        ra = {e["id"]: (e["out"], e["modules"], e["imports"]) for e in ea if e["k"] == "scan"}
        rb = {e["id"]: (e["out"], e["modules"], e["imports"]) for e in eb if e["k"] == "scan"}
        bad = sorted(k for k in ra if ra[k] != rb.get(k))
        fails = [{"prop": "C15", "clause": "scan-result-depends-on-earlier-scans", "detail": {"scans": bad}, "event": None,
                  "spec": spec, "episode_events": None}] if bad else []
        return CheckResult(fails=fails, coverage={"replayed_scans": len(ra)})
    if rp.get("clause") == "trace-depends-on-hash-seed":
        by_seed = run_under_seeds([spec])
        ref = by_seed[SEEDS[0]]
        fails = [{"prop": "C15", "clause": "trace-depends-on-hash-seed", "detail": {"seed": s}, "event": None,
                  "spec": spec, "episode_events": None} for s in SEEDS[1:] if by_seed[s] != ref]
        return CheckResult(fails=fails, coverage={"replayed_seeds": len(SEEDS)})
    module = {"rules": "Trace_Rules", "layers": "Trace_Layers", "scan": "Trace_Scan", "labels": "Trace_Labels"}[spec["driver"]]
    eps = runner.run_specs([spec], 1)
    tr = trace.validate(eps, f"{module}.tla", f"{module}.cfg", procs=1)
    return CheckResult(fails=attach(tr, [spec], eps), coverage={"replayed_events": tr.events})
