"""C08 - exclusions remove exactly the matching files/directories, nothing else."""
from __future__ import annotations

import itertools
import random
import re

from harness import projgen, tlc
from harness.checks import scan_common as sc
from harness.checks import wild_common as wc
from harness.result import CheckResult

ASSUMPTIONS = [
    "path and name alphabet: printable ASCII without newline (DESIGN section 5, guard 7)",
    "patterns are matched by TLC (Glob!GlobMatch), character by character, on the same absolute path strings the code "
    "sees (directories as walked from module_path, files resolved); regex_exclusions: the match set is an input computed "
    "with re.match, and each glob shape is also run through an independently written equivalent regex",
    "an excluded entry that is imported by a remaining file contributes no import",
    "the filtered-vs-unfiltered law is judged with externals excluded",
]

SHAPES = ["text", "*text", "text*", "*text*", "*/text", "*text-part", "name", "name*", "*text/*", "*text/"]


def glob_table(alphabet, maxp, maxs, timeout=3000):
    cfg = tlc.write_cfg("SPECIFICATION Spec\nCONSTANTS\n  Alphabet = {%s}\n  MaxP = %d\n  MaxS = %d\n  EMIT = TRUE\n"
                        "INVARIANT Agree\nINVARIANT StarFree\nINVARIANT InteriorStarLiteral\nINVARIANT StarsWiden\n"
                        "INVARIANT NonVacuous\nINVARIANT EmitPattern\nCHECK_DEADLOCK FALSE\n"
                        % (", ".join('"%s"' % c for c in alphabet), maxp, maxs))
    r = tlc.run("MC_Glob.tla", cfg, workers=16, timeout=timeout)
    tlc.require_ok(r, "model checking / emitting MC_Glob")
    return r


def compare_converter(r, alphabet, maxs):
    """(R) TLC's match set of every pattern vs. the real converter + re.match and the real FileFilter."""
    from pytestarch.eval_structure_generation.file_import.config import Config
    from pytestarch.eval_structure_generation.file_import.file_filter import FileFilter
    from pytestarch.utils.partial_match_to_regex_converter import convert_partial_match_to_regex

    subjects = ["".join(t) for n in range(maxs + 1) for t in itertools.product(alphabet, repeat=n)]
    fails, pairs = [], 0
    table = r.printed.get("GLOB", [])
    if len(table) != r.distinct:
        raise tlc.MachineryError("glob table incomplete")
    for g in table:
        want = set(g["m"])
        pairs += len(subjects)
        try:
            rx = convert_partial_match_to_regex(g["p"])
            ff = FileFilter(Config((rx,)))
            real = {s for s in subjects if re.match(rx, s) is not None}
            real2 = {s for s in subjects if ff.is_excluded(s)}
        except Exception as e:  # noqa: BLE001 - a documented pattern must not be rejected
            rx, real, real2 = f"{type(e).__name__}: {e}", None, None
        if real != want or real2 != want:
            fails.append({"prop": "C08", "clause": "glob-pattern-matches-other-strings-than-specified",
                          "detail": {"pattern": g["p"], "regex": rx, "only_spec": sorted(want - (real or set()))[:5],
                                     "only_code": sorted((real or set()) - want)[:5], "filter_differs": real2 != real},
                          "event": {"pattern": g["p"]}, "spec": {"driver": "glob", "pattern": g["p"], "alphabet": list(alphabet), "maxs": maxs},
                          "episode_events": None})
    return fails, pairs, len(table)


def episode_for(project, rng, n_entries, with_pairs=True):
    ep = sc.ScanEpisode(project)
    s0 = ep.scan()
    entries = [d for d in project["dirs"] if len(d) > 1] + [f["name"] for f in project["files"]]
    rng.shuffle(entries)
    for e in entries[:n_entries]:
        shapes = sc.glob_shapes(project, e, rng)
        for sh in (SHAPES if n_entries > 50 else rng.sample(SHAPES, 4)):
            sx = ep.scan(excl={"kind": "glob", "patterns": [shapes[sh]]})
            ep.law("excl", [s0, sx])
            if rng.random() < 0.5:
                sr = ep.scan(excl={"kind": "regex", "patterns": [shapes[sh]], "from_glob": True})
                ep.law("excl", [s0, sr])
                ep.law("same", [sx, sr])
    if with_pairs and len(entries) >= 2:
        a, b = entries[0], entries[1]
        pa, pb = sc.glob_shapes(project, a, rng), sc.glob_shapes(project, b, rng)
        two = [pa[rng.choice(SHAPES)], pb[rng.choice(SHAPES)]]
        s2 = ep.scan(excl={"kind": "glob", "patterns": two})
        ep.law("excl", [s0, s2])
        # the same two patterns as regular expressions, as a tuple or as one expression with a top-level alternation
        s3 = ep.scan(excl={"kind": "regex", "patterns": two, "from_glob": True, "join": rng.random() < 0.6})
        ep.law("excl", [s0, s3])
        ep.law("same", [s2, s3])
        # a plain literal text used as a regular expression is anchored at the start only: text as regex = glob text*
        sl = ep.scan(excl={"kind": "regex", "patterns": [sc.entry_path(a)], "escape": True})
        sg = ep.scan(excl={"kind": "glob", "patterns": [sc.entry_path(a) + "*"]})
        ep.law("excl", [s0, sl])
        ep.law("same", [sl, sg])
    # several regex_exclusions, one with an inline global flag: each pattern means what it means on its own
    if len(entries) >= 2:
        a, b = entries[0], entries[1]
        pa = "(?i).*/" + re.escape(a[-1].upper()) + r"(\.py)?$"          # matches a's path, case-insensitively
        pb = ".*/" + re.escape(b[-1].upper()) + r"(\.py)?$"              # upper-cased name of b: matches nothing
        for pats in ([pa, pb], [pb, pa]):
            sx = ep.scan(excl={"kind": "regex", "patterns": pats})
            ep.law("excl", [s0, sx])
    # exclusion x externals included: an excluded module that a remaining file imports must stay away (no module, no
    # import), whatever the external option says
    for e in entries[:3]:
        sh = sc.glob_shapes(project, e, rng)[rng.choice(["*/text", "*text", "text"])]
        ep.scan(ext=True, excl={"kind": "glob", "patterns": [sh]})
    subs = [d for d in project["dirs"] if len(d) > 1]
    if subs:      # exclusions under a module_path below the root
        d = rng.choice(subs)
        sd0 = ep.scan(mpath=d)
        below = [e for e in entries if e[:len(d)] == d and e != d]
        if below:
            e = rng.choice(below)
            sdx = ep.scan(mpath=d, excl={"kind": "glob", "patterns": [sc.glob_shapes(project, e, rng)[rng.choice(SHAPES)]]})
            ep.law("excl", [sd0, sdx])
    return ep.spec


def run(ctx):
    rng = random.Random(ctx.seed * 7919 + 8)
    mc = sc.model_check(7 if ctx.quick else 11)
    alphabet = ["a", "b", ".", "*"] if ctx.quick else ["a", "b", ".", "*", "$"]
    maxp, maxs = (5, 4) if ctx.quick else (6, 4)
    g = glob_table(alphabet, maxp, maxs)
    gfails, pairs, npat = compare_converter(g, alphabet, maxs)
    projects, _ = sc.emit_projects(7 if ctx.quick else 9)
    specs = []
    for p in (rng.sample(projects, 120) if ctx.quick else projects):
        specs.append(episode_for(p, rng, n_entries=99))
    n_rand = 120 if ctx.quick else 2500
    for _ in range(n_rand):
        p = projgen.random_project(rng, max_depth=rng.choice([2, 3, 4]), odd=True, externals=False,
                                   positions=False)
        specs.append(episode_for(p, rng, n_entries=4))
    # real source trees found on this machine (harness/wild.py), abstracted independently of pytestarch
    wspecs, wtrees = wc.specs(ctx, random.Random(ctx.seed * 7919 + 100), "C08")
    specs += wspecs
    tr, episodes, fails = sc.run_and_validate(specs)
    # the repository's own suite: the scans it makes of its resource projects, validated by the same specification
    str_, sepisodes, sfails, smeta = sc.validate_suite_scans()
    fails = fails + sfails
    st = sc.stats(episodes)
    removed = sum(1 for ep in episodes for e in ep if e["k"] == "scan" and e["excl"]["kind"] != "none"
                  and len(e["modules"]) < len(ep[1]["modules"]))
    if not st["law_instances"].get("excl") or not removed:
        raise tlc.MachineryError(f"vacuous run: {st}")
    cov = {"real_source_trees": wtrees, "repository_suite_scans_validated": smeta.get("scans", 0), "repository_suite_scans_skipped": smeta.get("skipped", {}), "states": mc.distinct + g.distinct + tr.states, "transitions": mc.generated + g.generated + tr.transitions,
           "model_states": mc.distinct + g.distinct, "traces_validated_against_impl": len(episodes),
           "trace_events": tr.events, "glob_patterns_exhaustive": npat, "glob_pattern_subject_pairs": pairs,
           "glob_alphabet": alphabet, "glob_max_pattern_len": maxp, "glob_max_subject_len": maxs,
           "filtered_scans_that_removed_something": removed, "random_projects": n_rand, **st,
           "evaluations": st["scans"] + npat, "distinct_nontrivial": removed + npat,
           "rule": "one case = <project, exclusion tuple> scanned with and without the exclusion, or one glob pattern "
                   "against all subjects; non-trivial = the exclusion removed at least one module",
           "exhaustive": False,
           "exhaustive_part": f"glob semantics: all {npat} patterns over {alphabet} up to length {maxp} x all subjects up to "
                              f"length {maxs}; scans: bounded-model projects x every entry x six pattern shapes",
           "samples": [episodes[0][1:3]]}
    return CheckResult(fails=gfails + fails, coverage=cov, assumptions=ASSUMPTIONS)


def replay(ctx, rp):
    spec = rp["spec"]
    if spec and spec.get("driver") == "glob":
        alphabet = spec["alphabet"]
        g = glob_table(alphabet, len(spec["pattern"]), spec["maxs"])
        g.printed["GLOB"] = [x for x in g.printed["GLOB"] if x["p"] == spec["pattern"]]
        g.distinct = len(g.printed["GLOB"])
        fails, _, _ = compare_converter(g, alphabet, spec["maxs"])
        return CheckResult(fails=fails, coverage={"replayed_patterns": 1})
    return sc.replay(ctx, rp)
