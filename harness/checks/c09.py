"""C09 - level_limit yields the quotient graph and preserves verdicts above the limit."""
from __future__ import annotations

import random

from harness import projgen, tlc
from harness.checks import scan_common as sc
from harness.checks import wild_common as wc
from harness.result import CheckResult

ASSUMPTIONS = [
    "the quotient law relates two real scans of the same project (level_limit None vs k); Scan!Quotient only computes "
    "the truncation, so a defect of the unlimited scan is not inherited",
    "verdict preservation is judged for strict rules (subjects and objects pairwise unrelated) whose named modules "
    "have at most len(module_path)+k components and whose 'sub modules of' parents have fewer - the model refutes the "
    "law without that restriction (MC_Scan!QuotientVerdictUnrestricted, vacuity guard)",
]


def episode_for(project, rng, n_rules=10):
    ep = sc.ScanEpisode(project)
    depth = sc.depth_of(project)
    mods = sc.all_modules(project)
    mpaths = [[project["root"]]]
    subs = [d for d in project["dirs"] if len(d) > 1]
    if subs:
        mpaths.append(rng.choice(subs))
    for mp in mpaths:
        ext = rng.random() < 0.25
        # level limit x exclusion
        excl = None
        entries = [d for d in project["dirs"] if len(d) > len(mp) and d[:len(mp)] == mp] + \
                  [f["name"] for f in project["files"] if f["name"][:len(mp)] == mp]
        rng.shuffle(entries)
        for x in entries[:6]:
            outside = [st for st in project["stmts"] if st["file"][:len(x)] != x]
            # (an excluded module that a remaining file still imports - generated code, say - contributes no import
            # under any level limit either: no guard on who mentions x)
            if rng.random() < 0.35:
                excl = {"kind": "glob", "patterns": [sc.glob_shapes(project, x, rng)["*/text"]]}
                break
        kw = {"excl": excl} if excl else {}
        s0 = ep.scan(mpath=mp, ext=ext, **kw)
        below = [m for m in mods if m[:len(mp)] == mp]
        ks = list(range(0, max(2, depth - len(mp) + 1)))      # level_limit 0: everything is module_path itself
        if rng.random() < 0.3:
            ks.append(depth + rng.randint(1, 3))          # a limit below every module: nothing is truncated
        for k in ks:
            sk = ep.scan(mpath=mp, limit=k, ext=ext, **kw)
            ep.law("quotient", [s0, sk])
            keep = len(mp) + k
            visible = [m for m in below if len(m) <= keep] + [mp[:i] for i in range(1, len(mp))]
            for i, rule in enumerate(sc.rules_above(visible, keep, rng, n_rules)):
                rid = f"R{sk}_{i}"
                ep.seval(s0, rid, rule)
                ep.seval(sk, rid, rule)
                ep.law("verdict", [s0, sk], rid)
    return ep.spec


def run(ctx):
    rng = random.Random(ctx.seed * 7919 + 9)
    mc = sc.model_check(7 if ctx.quick else 11)
    projects, _ = sc.emit_projects(7 if ctx.quick else 9)
    specs = [episode_for(p, rng, 6) for p in (rng.sample(projects, 150) if ctx.quick else projects)]
    n_rand = 200 if ctx.quick else 4000
    for _ in range(n_rand):
        p = projgen.random_project(rng, max_depth=rng.choice([3, 4, 5]), n_dirs=rng.randint(3, 9), positions=False, odd=rng.random() < 0.3,
                                   n_stmts=rng.randint(5, 40))
        specs.append(episode_for(p, rng, 10))
    # real source trees found on this machine (harness/wild.py), abstracted independently of pytestarch
    wspecs, wtrees = wc.specs(ctx, random.Random(ctx.seed * 7919 + 100), "C09")
    specs += wspecs
    tr, episodes, fails = sc.run_and_validate(specs)
    # the repository's own suite: the scans it makes of its resource projects, validated by the same specification
    str_, sepisodes, sfails, smeta = sc.validate_suite_scans()
    fails = fails + sfails
    # the construction of the architecture with the limit applied while building, as an algorithm (Graph.tla):
    # in every processing order the limited build is the quotient of the unlimited one
    from harness.checks import graph_common as gc
    gfails, gmeta, gmc, gtr = gc.run_all(ctx, 909)
    fails = fails + gfails
    st = sc.stats(episodes)
    flips = 0
    for ep in episodes:
        outs = {}
        for e in ep:
            if e["k"] == "seval":
                outs.setdefault(e["rid"], set()).add(e["out"])
    shrunk = sum(1 for ep in episodes for e in ep if e["k"] == "scan" and e["limit"] and e["out"] == "ok")
    fail_verdicts = sum(1 for ep in episodes for e in ep if e["k"] == "seval" and e["out"] == "fail")
    if not st["law_instances"].get("quotient") or not st["law_instances"].get("verdict") or not fail_verdicts:
        raise tlc.MachineryError(f"vacuous run: {st}")
    cov = {**gmeta, "real_source_trees": wtrees, "repository_suite_scans_validated": smeta.get("scans", 0), "repository_suite_scans_skipped": smeta.get("skipped", {}), "states": mc.distinct + tr.states + gmc.distinct + gtr.states, "transitions": mc.generated + tr.transitions + gmc.generated + gtr.transitions,
           "model_states": mc.distinct, "model_transitions": mc.generated,
           "traces_validated_against_impl": len(episodes), "trace_events": tr.events,
           "limited_scans": shrunk, "failing_verdicts_compared": fail_verdicts, "random_projects": n_rand, **st,
           "evaluations": st["sevals"] + st["scans"], "distinct_nontrivial": st["law_instances"].get("verdict", 0) + shrunk,
           "rule": "one case = <project, module_path, k>: the limited scan compared with the quotient of the unlimited "
                   "one, plus strict rules above the limit evaluated on both",
           "exhaustive": False,
           "exhaustive_part": "MC_Scan!QuotientVerdict on every project of the bounded model x k in 0..2 x all single strict "
                              "rules above the limit (TLC); emitted projects replayed with k in 0..depth",
           "samples": [episodes[0][1:4]]}
    return CheckResult(fails=fails, coverage=cov, assumptions=ASSUMPTIONS)


replay = sc.replay
