"""C03 - violation reports name exactly the offending imports and the missing imports."""
from __future__ import annotations

import random

from harness.checks import rules_common as rc
from harness.checks.c01 import ASSUMPTIONS
from harness.episodes import RuleEpisode
from harness.result import CheckResult
from harness.rulesapi import F
from harness.world import random_world


def _queries(ep, rng, modules, n):
    mods = [tuple(m) for m in modules]
    for _ in range(n):
        kd, ku = rng.choice(["named", "sub"]), rng.choice(["named", "sub"])
        deps = [F(kd, m) for m in rng.sample(mods, rng.randint(1, min(2, len(mods))))]
        upons = [F(ku, m) for m in rng.sample(mods, rng.randint(1, min(2, len(mods))))]
        ep.spec["items"].append({"op": "query", "a": 0, "q": rng.choice(["deps", "other_from", "other_on"]),
                                 "dependents": deps, "upons": upons})


def specs_for(ctx):
    rng = random.Random(ctx.seed * 7919 + 3)
    specs, meta = [], {}
    states, _ = rc.emit_states("W4")
    meta["emitted_states_W4"] = len(states)
    for st in states:
        ep = RuleEpisode({"modules": st["modules"], "imports": st["imports"]})
        for rule in rc.full_single_space(st["modules"]):
            ep.eval(rule)
        _queries(ep, rng, st["modules"], 40)
        specs.append(ep.spec)
    states_b, _ = rc.emit_states("W5" if ctx.quick else "W6")
    take = rng.sample(states_b, 30 if ctx.quick else 1200)
    meta["replayed_states_big"] = len(take)
    for st in take:
        ep = RuleEpisode({"modules": st["modules"], "imports": st["imports"]})
        for rule in rc.sampled_rules(rng, st["modules"], 250, max_batch=3):
            ep.eval(rule)
        _queries(ep, rng, st["modules"], 40)
        specs.append(ep.spec)
    n_worlds = 60 if ctx.quick else 1500
    for _ in range(n_worlds):
        w = random_world(rng, n_imports=rng.randint(5, 60))
        ep = RuleEpisode(w, render=rng.choice(["ident", "clean", "adv", "adv2"]))
        for rule in rc.sampled_rules(rng, w.modules, 50, max_batch=3):
            ep.eval(rule)
        _queries(ep, rng, w.modules, 15)
        specs.append(ep.spec)
    # worlds shaped like scanned trees: every package has an '__init__' module that imports and is imported
    n_init = 25 if ctx.quick else 500
    specs += rc.package_init_specs(rng, n_init)
    meta["worlds_with_package_init_modules"] = n_init
    meta["random_worlds"] = n_worlds
    return specs, meta


def run(ctx):
    mc = rc.model_check("W4" if ctx.quick else "W5")
    specs, meta = specs_for(ctx)
    tr, episodes, fails = rc.run_and_validate(specs)
    # third trace source: the repository's own test suite under /verif's pytest plugin
    str_, sepisodes, sfails, smeta = rc.validate_suite()
    fails = fails + sfails
    evals, nontrivial = rc.nontrivial_count(episodes)
    failing = [e for ep in episodes for e in ep if e["k"] == "eval" and e["out"] == "fail"]
    queries = sum(1 for ep in episodes for e in ep if e["k"] == "query")
    cov = {"repository_suite_rule_evaluations_validated": smeta["evaluations"], "repository_suite_skipped": smeta["skipped"],
           "states": mc.distinct + tr.states + str_.states, "transitions": mc.generated + tr.transitions + str_.transitions,
           "model_states": mc.distinct, "traces_validated_against_impl": len(episodes), "trace_events": tr.events,
           "evaluations": evals, "failing_evaluations_with_parsed_message": len(failing), "graph_queries": queries,
           "distinct_nontrivial": nontrivial,
           "rule": "one case = <module tree, import relation, rule>; the reported lines of every failing evaluation are "
                   "parsed and compared as sets with RuleSem!Realised / MissingEdge / MissingOther; non-trivial = some "
                   "import touches a subject's sub-tree",
           "exhaustive": False, "samples": [{"arch": episodes[0][0], "event": failing[0] if failing else None}], **meta}
    return CheckResult(fails=fails, coverage=cov, assumptions=ASSUMPTIONS)


def replay(ctx, rp):
    if rp["spec"].get("driver") == "suite":
        tr, episodes, fails, _ = rc.validate_suite()
        return CheckResult(fails=fails, coverage={"replayed_events": tr.events})
    tr, episodes, fails = rc.run_and_validate([rp["spec"]], procs=1)
    return CheckResult(fails=fails, coverage={"replayed_events": tr.events})
