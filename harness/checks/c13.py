"""C13 - undefined or incomplete specifications never produce a verdict."""
from __future__ import annotations

import itertools
import os
import json
import random
import shutil
import tempfile

from harness.checks import builders_common as bc
from harness.checks import rules_common as rc
from harness.checks import scan_common as sc
from harness.episodes import RuleEpisode
from harness.result import CheckResult, attach
from harness.rulesapi import DIRS, VERBS, F, mk_rule
from harness.world import World, random_world
from harness import runner, trace, tlc

ASSUMPTIONS = [
    "a 'configuration or lookup error' is any exception other than AssertionError (the class is recorded, not judged)",
    "where 'flags are sticky' and 'last call wins' readings of a fluent history differ, every reading is accepted; "
    "only incomplete / contradictory histories are required to raise",
    "list arguments of the Rule vocabulary name r.a on the subject side and r.b on the object side (both exist)",
]

A, B = ["r", "a"], ["r", "b"]
LIST_M = ["are_named", "are_sub_modules_of", "have_name_matching", "have_name_containing"]
VERB_M = ["should", "should_only", "should_not"]
IMP_M = ["import_modules_that", "be_imported_by_modules_that", "import_modules_except_modules_that",
         "be_imported_by_modules_except_modules_that", "import_anything", "be_imported_by_anything"]


def _rule_calls_from_names(names):
    """Method names -> abstract calls with the vocabulary's state-dependent argument (MC_Builders!ArgName)."""
    nxt, out = "none", []
    for m in names:
        if m == "modules_that":
            nxt = "subj"
            out.append({"m": m})
        elif m in IMP_M:
            nxt = "obj"
            out.append({"m": m})
        elif m in LIST_M:
            kind = "sub" if m == "are_sub_modules_of" else "named"
            out.append({"m": m, "filters": [{"kind": kind, "name": B if nxt == "obj" else A}], "nomatch": False})
        else:
            out.append({"m": m})
    return out


def _complete_rule_chains():
    for s, v, i, o in itertools.product(LIST_M, VERB_M, IMP_M, LIST_M):
        chain = ["modules_that", s, v, i] + ([] if "anything" in i else [o])
        yield chain


def _misspellings(rng, name):
    name = list(name)
    yield name[:-1] + [name[-1] + "x"]                 # misspelt leaf
    yield name[:-1] + [name[-1][:-1] or "q"]           # truncated leaf
    yield name + ["deeper"]                            # one level too deep
    yield ["x" + name[0]] + name[1:]                   # wrong root
    if len(name) > 1:
        yield name[:-2] + [name[-2] + "_", name[-1]]   # misspelt parent


def _unknown_name_specs(ctx, rng):
    specs = []
    n_worlds = 40 if ctx.quick else 600
    for k in range(n_worlds):
        w = random_world(rng, n_modules=rng.randint(5, 16), n_imports=rng.randint(0, 25))
        known = set(w.modules)
        ep = RuleEpisode(w)
        ep.spec["level_limit"] = None
        for m in rng.sample(w.modules, min(6, len(w.modules))):
            for bad in _misspellings(rng, m):
                if tuple(bad) in known:
                    continue
                good = F(rng.choice(["named", "sub"]), rng.choice(w.modules))
                badf = F(rng.choice(["named", "sub"]), bad)
                verb, d, exc = rng.choice(VERBS), rng.choice(DIRS), rng.random() < 0.5
                bads = [badf]
                if rng.random() < 0.5:
                    # the unknown name in a BATCH with existing modules - the module it was derived from (for the
                    # 'one level too deep' spelling: its own existing parent), that module's parent, or any other one;
                    # in either order.  Every listed name is looked up, whatever stands next to it.
                    mate = rng.choice([list(m), list(m[:-1]) or list(m), list(rng.choice(w.modules))])
                    if tuple(mate) in known:
                        matef = F(badf["kind"], mate)          # (one fluent call gives one kind per side)
                        bads = [badf, matef] if rng.random() < 0.5 else [matef, badf]
                if rng.random() < 0.5:
                    ep.eval(mk_rule(verb, d, exc, bads, [good]))
                else:
                    ep.eval(mk_rule(verb, d, exc, [good], bads))
                if rng.random() < 0.2:
                    ep.eval(mk_rule("should_not", d, False, [badf], [], any_=True))
        specs.append(ep.spec)
    return specs


def _entry_events(ctx, rng):
    """All invalid (and the valid) option combinations of get_evaluable_architecture on a tiny real project."""
    from pytestarch import get_evaluable_architecture

    base = tempfile.mkdtemp(prefix="verif-entry-", dir="/dev/shm" if os.path.isdir("/dev/shm") else None)
    events = [{"k": "new", "h": "ENTRY", "which": "diag", "first": True}]
    try:
        root = os.path.join(base, "proj")
        os.makedirs(os.path.join(root, "pkg"))
        os.makedirs(os.path.join(base, "elsewhere"))
        for p, txt in (("a.py", "import os\nfrom proj.pkg import b\n"), ("pkg/b.py", "import proj.a\n")):
            with open(os.path.join(root, p), "w") as f:
                f.write(txt)
        for excl, rex, ext, eex, rеex, inside in itertools.product((False, True), repeat=6):
            kw = {"exclusions": ("*__pycache__*",) if excl else (), "regex_exclusions": (".*__pycache__.*",) if rex else None,
                  "exclude_external_libraries": ext,
                  "external_exclusions": ("o*",) if eex else None,
                  "regex_external_exclusions": ("o.*",) if rеex else None}
            mp = os.path.join(root, "pkg") if inside else os.path.join(base, "elsewhere")
            try:
                get_evaluable_architecture(root, mp, **kw)
                out, exc = "ok", ""
            except AssertionError:
                out, exc = "fail", "AssertionError"
            except Exception as e:
                out, exc = "error", type(e).__name__
            events.append({"k": "entry", "exclusions": excl, "regex_exclusions": rex, "exclude_external": ext,
                           "external_exclusions": eex, "regex_external_exclusions": rеex,
                           "module_inside_root": inside, "out": out, "exc": exc})
    finally:
        shutil.rmtree(base, ignore_errors=True)
    return events


def _limited_scan_specs(ctx, rng):
    from harness import projgen
    from harness.rulesapi import F, mk_rule, VERBS, DIRS

    specs = []
    for _ in range(40 if ctx.quick else 800):
        p = projgen.random_project(rng, max_depth=rng.choice([3, 4, 5]), n_dirs=rng.randint(3, 8), positions=False,
                                   externals=False, n_stmts=rng.randint(4, 25))
        ep = sc.ScanEpisode(p)
        mods = sc.all_modules(p)
        for k in range(1, max(2, sc.depth_of(p) - 1)):
            sk = ep.scan(limit=k)
            keep = 1 + k
            deep = [m for m in mods if len(m) > keep]
            shallow = [m for m in mods if 1 < len(m) <= keep]
            for i in range(8):
                if not deep or not shallow:
                    break
                bad, good = rng.choice(deep), rng.choice(shallow)
                if rng.random() < 0.3:
                    bad = good[:-1] + [good[-1] + "x"]          # misspelt
                if bad[:len(good)] == good or good[:len(bad)] == bad:
                    continue
                kind = rng.choice(["named", "sub"])
                subs, objs = ([F(kind, bad)], [F("named", good)]) if rng.random() < 0.5 else ([F("named", good)], [F(kind, bad)])
                if rng.random() < 0.2:
                    rule = mk_rule("should_not", rng.choice(DIRS), False, [F(kind, bad)], [], any_=True)
                else:
                    rule = mk_rule(rng.choice(VERBS), rng.choice(DIRS), rng.random() < 0.5, subs, objs)
                ep.seval(sk, f"T{k}_{i}", rule)
        specs.append(ep.spec)
    return specs


def run(ctx):
    rng = random.Random(ctx.seed * 7919 + 13)
    n_rule, n_lrule, n_diag = (3, 4, 4) if ctx.quick else (4, 4, 5)
    mcs = [bc.model_check("rule", n_rule), bc.model_check("lrule", n_lrule), bc.model_check("diag", n_diag)]
    specs = []
    meta = {}
    for which, n in (("rule", n_rule), ("lrule", n_lrule), ("diag", n_diag)):
        hs, _ = bc.emit_histories(which, n)
        meta[f"histories_{which}_upto_{n}"] = len(hs)
        specs += bc.specs_from(which, hs)
    # the complete automata (histories of any length): every reachable automaton state by a shortest history, and
    # every transition of the automaton (quick: all of LayerRule / DiagramRule, a seeded sample of Rule's)
    closures = []
    for which in ("rule", "lrule", "diag"):
        cstates, ctrans, cr = bc.closure(which)
        closures.append(cr)
        meta[f"automaton_states_{which}"] = len(cstates)
        meta[f"automaton_transitions_{which}"] = len(ctrans)
        if ctx.quick and len(ctrans) > 10000:
            ctrans = rng.sample(ctrans, 7000)
        meta[f"automaton_transitions_{which}_replayed"] = len(ctrans)
        specs += bc.specs_from(which, cstates + ctrans)
    # longer behaviours of the automata (tlc -simulate)
    for which, depth, num in (("rule", 7, 150 if ctx.quick else 3000), ("lrule", 7, 1000 if ctx.quick else 12000)):
        hs, _ = bc.simulate_histories(which, depth, num, seed=ctx.seed + 1)
        meta[f"simulated_{which}_depth_{depth}"] = len(hs)
        specs += bc.specs_from(which, hs)
    # well-shaped LayerRule chains (every verb x access kind x object layer list) and every single deletion /
    # duplication / transposition of them
    hc, _ = bc.emit_histories("lchain", 6)
    full = [h for h in hc if len(h) == 6]
    meta["layer_rule_chains"] = len(full)
    lmuts = {json.dumps(h, sort_keys=True) for h in hc}
    for ch in (full if not ctx.quick else rng.sample(full, min(len(full), 40))):
        for mu in bc.mutations(ch):
            lmuts.add(json.dumps(mu, sort_keys=True))
    meta["layer_rule_chain_mutations"] = len(lmuts)
    specs += bc.specs_from("lrule", [json.loads(x) for x in sorted(lmuts)])
    # every single deletion / duplication / transposition of every complete Rule chain
    chains = list(_complete_rule_chains())
    muts = set()
    for ch in (chains if not ctx.quick else rng.sample(chains, 60)):
        muts.add(tuple(ch))
        for mu in bc.mutations(ch):
            muts.add(tuple(mu))
    meta["complete_rule_chains"] = len(chains)
    meta["mutated_chains_replayed"] = len(muts)
    specs += bc.specs_from("rule", [_rule_calls_from_names(list(m)) for m in sorted(muts)])
    tr, episodes, fails = bc.run_and_validate(specs)
    # unknown / misspelt / too-deep names against random architectures: judged by Trace_Rules
    uspecs = _unknown_name_specs(ctx, rng)
    utr, uepisodes, ufails = rc.run_and_validate(uspecs)
    # names that are not modules of a LEVEL-LIMITED scan (one level too deep: modules of the unlimited scan; misspelt):
    # judged by Trace_Scan on the architecture as observed
    sspecs = _limited_scan_specs(ctx, rng)
    stre, sepisodes, sfails = sc.run_and_validate(sspecs)
    too_deep = sum(1 for ep in sepisodes for e in ep if e["k"] == "seval" and e["out"] == "error")
    if not too_deep:
        raise tlc.MachineryError("vacuous: no rule with a name below the level limit was evaluated")
    ufails = ufails + sfails
    meta["too_deep_names_on_level_limited_scans"] = too_deep
    # diagrams that name a component which is no module (misspelt name / wrong base module), on architectures that
    # also violate the rest of the diagram: a lookup error, never the violation's AssertionError
    dspecs = []
    for _ in range(60 if ctx.quick else 1000):
        w = random_world(rng, n_modules=rng.randint(8, 20), n_imports=rng.randint(6, 40))
        tops = [m for m in w.modules if len(m) == 2]
        if len(tops) < 3:
            continue
        items = []
        for k in range(4):
            comps = [m[1] for m in rng.sample(tops, rng.randint(2, min(4, len(tops))))]
            bad = rng.choice(comps) + "zz"
            comps2 = comps + [bad]
            pairs = [(a, b) for a in comps2 for b in comps2 if a != b]
            deps = rng.sample(pairs, min(len(pairs), rng.randint(1, 4)))
            if not any(bad in d for d in deps) and rng.random() < 0.5:
                deps.append((comps[0], bad))
            qualified = rng.random() < 0.5
            items.append({"op": "deval", "a": 0, "rid": f"U{k}", "only": rng.random() < 0.5,
                          "comps": [(["r", c] if qualified else [c]) for c in comps2],
                          "deps": [((["r", a] if qualified else [a]), (["r", b] if qualified else [b])) for a, b in deps],
                          "base": [] if qualified else ["r"]})
        dspecs.append({"driver": "diagram", "world": w.json(), "items": items})
    depisodes = runner.run_specs(dspecs)
    dtr = trace.validate(depisodes, "Trace_Diagram.tla", "Trace_Diagram.cfg")
    ufails = ufails + attach(dtr, dspecs, depisodes)
    meta["diagrams_with_unknown_component"] = sum(1 for ep in depisodes for e in ep if e["k"] == "deval")
    # layer rules naming, among several object layers, one whose regex matches no module: a lookup error, never a verdict
    from harness.checks import c05
    lspecs = []
    for _ in range(40 if ctx.quick else 600):
        w = random_world(rng, n_modules=rng.randint(8, 20), n_imports=rng.randint(6, 40))
        tops = c05.tops_of(w)
        if len(tops) < 3:
            continue
        layers = c05.partitions(rng, tops, 3, kinds=rng.choice(["names", "regex", "mixed"]))
        layers[2] = {"name": layers[2]["name"], "kind": "regex", "listed": [], "pat": r"r\.zz_matches_nothing.*"}
        names = [l["name"] for l in layers]
        items = []
        for k, (v, d, x) in enumerate(c05.SHAPES):
            objs = [names[1], names[2]] if k % 2 else [names[2], names[1]]
            items.append({"op": "leval", "a": 0, "rid": f"N{k}", "layers": layers, "objs_as_list": True,
                          "rule": {"verb": v, "dir": d, "exc": x, "any": False, "sub": names[0], "objs": objs}})
        lspecs.append({"driver": "layers", "world": w.json(), "render": "ident", "items": items})
    lepisodes = runner.run_specs(lspecs)
    ltr = trace.validate(lepisodes, "Trace_Layers.tla", "Trace_Layers.cfg")
    ufails = ufails + attach(ltr, lspecs, lepisodes)
    meta["layer_rules_with_a_regex_layer_matching_nothing"] = sum(1 for ep in lepisodes for e in ep if e["k"] == "leval")
    # entry-point option combinations
    entry = [_entry_events(ctx, rng)]
    etr = trace.validate(entry, "Trace_Builders.tla", "Trace_Builders.cfg", procs=1)
    efails = [dict(f, spec={"driver": "entry"}, episode_events=entry[0]) for f in etr.fails]
    excs = {}
    for ep in episodes + uepisodes:
        for e in ep:
            if e.get("exc"):
                excs[e["exc"]] = excs.get(e["exc"], 0) + 1
            elif e.get("out") == "error" and e.get("raw"):
                k = e["raw"].split(":")[0]
                excs[k] = excs.get(k, 0) + 1
    must_error = sum(1 for ep in episodes for e in ep if e["k"] == "assert" and e["out"] == "error")
    verdicts = sum(1 for ep in episodes for e in ep if e["k"] == "assert" and e["out"] != "error")
    if not must_error or not verdicts:
        raise tlc.MachineryError("vacuous: no erroring or no evaluating history")
    states = sum(m.distinct for m in mcs) + sum(c.distinct for c in closures)
    cov = {"states": states + tr.states + utr.states + etr.states,
           "transitions": sum(m.generated for m in mcs + closures) + tr.transitions + utr.transitions + etr.transitions,
           "automaton_closure": "TLC with VIEW = automaton state: every reachable state of the Rule / LayerRule / "
                                "DiagramRule automata; the model-level invariants hold for histories of any length",
           "model_states": states, "traces_validated_against_impl": len(episodes) + len(uepisodes) + 1,
           "trace_events": tr.events + utr.events + etr.events,
           "histories_replayed": len(specs), "asserts_raising_error": must_error, "asserts_with_verdict": verdicts,
           "unknown_name_evaluations": sum(1 for ep in uepisodes for e in ep if e["k"] == "eval"),
           "entry_option_combinations": len(entry[0]) - 1, "exception_classes_seen": excs,
           "evaluations": len(specs) + sum(len(s["items"]) for s in uspecs),
           "distinct_nontrivial": len({str(s["hist"]) for s in specs}),
           "rule": "one case = one call history replayed on a fresh real object and closed with assert_applies on "
                   "4 architectures; distinct = distinct histories",
           "exhaustive": False,
           "exhaustive_part": f"all call histories up to length {n_rule} (Rule), {n_lrule} (LayerRule), {n_diag} (DiagramRule); "
                              "every state of the three automata by a shortest history"
                              + ("" if ctx.quick else " and every transition of them"),
           "samples": [episodes[len(episodes) // 2][:8]], **meta}
    return CheckResult(fails=fails + ufails + efails, coverage=cov, assumptions=ASSUMPTIONS)


def replay(ctx, rp):
    spec = rp["spec"]
    if spec.get("driver") == "rules":
        tr, episodes, fails = rc.run_and_validate([spec], procs=1)
    elif spec.get("driver") == "scan":
        tr, episodes, fails = sc.run_and_validate([spec], procs=1)
    elif spec.get("driver") == "layers":
        episodes = runner.run_specs([spec], 1)
        tr = trace.validate(episodes, "Trace_Layers.tla", "Trace_Layers.cfg", procs=1)
        fails = attach(tr, [spec], episodes)
    elif spec.get("driver") == "diagram":
        episodes = runner.run_specs([spec], 1)
        tr = trace.validate(episodes, "Trace_Diagram.tla", "Trace_Diagram.cfg", procs=1)
        fails = attach(tr, [spec], episodes)
    elif spec.get("driver") == "entry":
        rng = random.Random(0)
        entry = [_entry_events(ctx, rng)]
        etr = trace.validate(entry, "Trace_Builders.tla", "Trace_Builders.cfg", procs=1)
        return CheckResult(fails=[dict(f, spec=spec, episode_events=entry[0]) for f in etr.fails],
                           coverage={"replayed_events": etr.events})
    else:
        tr, episodes, fails = bc.run_and_validate([spec], procs=1)
    return CheckResult(fails=fails, coverage={"replayed_events": tr.events})
