"""C06 - PlantUML diagrams parse to exactly their components, aliases and arrows."""
from __future__ import annotations

import random

from harness import runner, tlc, trace
from harness.result import CheckResult, attach

ASSUMPTIONS = [
    "an alias is never the name of ANOTHER component of the same diagram (a bare reference would be ambiguous); it may be "
    "the component's own name, and it may be a name that other diagrams parsed by the same parser object use for a component",
    "documented subset (DiagramSem!DocumentedDiagram): a component is declared at most once, aliases only on bracketed "
    "declarations, alias names differ from component names, no self-arrows, one canonical spacing",
    "the renderer prints each abstract line in the form docs/features/plantuml.md shows; every rendered line is "
    "re-checked against a template regex written from that documentation",
    "noise is blank lines inside the tags and arbitrary text (including arrow-looking lines) outside them",
    "a diagram file may be saved with LF or with CR LF line ends (15 % of the random diagrams): the same diagram",
]

DECL_FORMS = ["brackets", "component", "component_brackets"]
REF_FORMS = ["bracket", "bare", "alias"]
ARROWS = ["-->", "->", "<--", "<-", "-t->", "<-t-"]


def _cfg(maxlines, emit, dotted):
    inv = "INVARIANT EmitDiagram" if emit else "INVARIANT MeaningIsCanonical\nPROPERTY OrderAndFormIndependent"
    return tlc.write_cfg(f"""SPECIFICATION Spec
CONSTANTS
  Mode = "parse"
  MaxLines = {maxlines}
  EMIT = {"TRUE" if emit else "FALSE"}
  Dotted = {"TRUE" if dotted else "FALSE"}
{inv}
CHECK_DEADLOCK FALSE
""")


def random_diagram(rng, pool, n_comps, dotted_names):
    comps = rng.sample(pool, n_comps)
    names = [(["pkg", c] if dotted_names else [c]) for c in comps]
    aliases = {}
    lines = []
    for i, n in enumerate(names):
        if rng.random() < 0.75:
            form = rng.choice(DECL_FORMS)
            al = ""
            if form != "component" and rng.random() < 0.5:
                roll = rng.random()
                free = [p for p in pool if p not in comps and p not in aliases.values()]
                if roll < 0.2 and not dotted_names:
                    al = n[-1]                      # '[core] as core': the alias is the component's own name
                elif roll < 0.5 and free:
                    al = rng.choice(free)           # a name that OTHER diagrams of the episode use for a component
                else:
                    al = f"AL{i}"
                aliases[tuple(n)] = al
            lines.append({"t": "decl", "comp": n, "form": form, "alias": al})
    pairs = [(a, b) for a in names for b in names if a != b]
    for a, b in rng.sample(pairs, min(len(pairs), rng.randint(1, 2 * n_comps))):
        def ref(c):
            hows = ["bracket", "bare"] + (["alias"] if tuple(c) in aliases else [])
            return {"how": rng.choice(hows), "comp": c}
        form = rng.choice(ARROWS)
        left, right = (a, b) if form in ("-->", "->", "-t->") else (b, a)
        lines.append({"t": "arrow", "left": ref(left), "right": ref(right), "form": form})
    for _ in range(rng.randint(0, 2)):
        lines.append({"t": "noise"})
    rng.shuffle(lines)
    return lines


def run(ctx):
    rng = random.Random(ctx.seed * 7919 + 6)
    mc = tlc.require_ok(tlc.run("MC_Diagram.tla", _cfg(2, False, False), workers=8), "MC_Diagram parse")
    specs, meta = [], {}
    for dotted_names in (False, True):
        r = tlc.require_ok(tlc.run("MC_Diagram.tla", _cfg(2, True, dotted_names), workers=1), "emit diagrams")
        ds = r.printed.get("DIAGRAM", [])
        meta[f"emitted_diagrams_{'dotted' if dotted_names else 'simple'}"] = len(ds)
        if ctx.quick:
            ds = rng.sample(ds, min(len(ds), 4000))
        items = [{"op": "parse", "lines": d["lines"], "tags": True} for d in ds]
        for i in range(0, len(items), 200):
            specs.append({"driver": "diagram", "world": None, "items": items[i:i + 200]})
    # (the last names begin with words of the PlantUML language: a component is recognised by the form of its line,
    # never by what its name happens to start with)
    pool = ["alpha", "beta", "gamma", "delta", "eps", "zeta", "a", "ab", "a_b", "M_1",
            "notes", "notebook", "ends", "components", "packages", "as1", "titles", "up", "enduml2"]
    n_rand = 1500 if ctx.quick else 40000
    items = []
    pres = ["", "title page\n", "[x] --> [y]\ncomponent z\n", "' a comment\n\n"]
    posts = ["", "trailing text\n", "[p] <- [q]\n"]
    for k in range(n_rand):
        lines = random_diagram(rng, pool, rng.randint(2, 6), rng.random() < 0.4)
        tags = rng.random() > 0.1 or rng.choice([False, "start_only", "end_only", "reversed"])
        items.append({"op": "parse", "lines": lines, "tags": tags, "pre": rng.choice(pres), "post": rng.choice(posts),
                      "crlf": rng.random() < 0.15})          # saved with Windows line ends
    for i in range(0, len(items), 200):
        specs.append({"driver": "diagram", "world": None, "items": items[i:i + 200]})
    meta["random_diagrams"] = n_rand
    episodes = runner.run_specs(specs, 16)
    tr = trace.validate(episodes, "Trace_Diagram.tla", "Trace_Diagram.cfg", procs=16)
    fails = attach(tr, specs, episodes)
    for f in fails:   # a replay needs only the failing diagram, not the 200 of its batch
        ev = f["event"]
        f["spec"] = {"driver": "diagram", "world": None,
                     "items": [{"op": "parse", "lines": ev["lines"], "tags": ev["tags"], "crlf": ev.get("crlf", False)}]}
    evs = [e for ep in episodes for e in ep]
    n_err = sum(1 for e in evs if e["out"] == "error")
    if not n_err or n_err == len(evs):
        raise tlc.MachineryError("vacuous: parse outcomes all equal")
    import json
    distinct = len({json.dumps(e["lines"], sort_keys=True) for e in evs if any(x["t"] == "arrow" for x in e["lines"])})
    cov = {"states": mc.distinct + tr.states, "transitions": mc.generated + tr.transitions, "model_states": mc.distinct,
           "traces_validated_against_impl": len(episodes), "trace_events": tr.events,
           "evaluations": len(evs), "distinct_nontrivial": distinct,
           "diagrams_without_tags": sum(1 for e in evs if e["tagform"] != "both"),
           "tag_forms": {tf: sum(1 for e in evs if e["tagform"] == tf) for tf in sorted({e["tagform"] for e in evs})},
           "rule": "one case = one abstract diagram rendered to text and parsed by the real PumlParser; non-trivial = "
                   "has at least one arrow; distinct by abstract content",
           "exhaustive": False, "exhaustive_part": "every documented diagram of at most 2 lines over the model's line alphabet "
                                                   "(simple names; dotted names), unless sampled in the quick tier",
           "samples": [{"text": evs[len(evs) // 2]["text"], "components": evs[len(evs) // 2]["components"],
                        "deps": evs[len(evs) // 2]["deps"]}], **meta}
    return CheckResult(fails=fails, coverage=cov, assumptions=ASSUMPTIONS)


def replay(ctx, rp):
    specs = [rp["spec"]]
    episodes = runner.run_specs(specs, 1)
    tr = trace.validate(episodes, "Trace_Diagram.tla", "Trace_Diagram.cfg", procs=1)
    return CheckResult(fails=attach(tr, specs, episodes), coverage={"replayed_events": tr.events})
