"""Shared machinery of the module-rule properties C01 C03 C11 C12 (and parts of C13 C14 C15)."""
from __future__ import annotations

import itertools
import random

from harness import runner, tlc, trace
from harness.episodes import RuleEpisode
from harness.result import CheckResult, attach
from harness.rulesapi import DIRS, VERBS, F, mk_rule, rule_space
from harness.ruledriver import strict
from harness.world import World, candidate_imports, random_world


def model_check(world: str, workers=16, timeout=3000):
    """(M): the laws and the documentation-table equivalence on the bounded model."""
    r = tlc.run("MC_RuleSem.tla", f"MC_RuleSem_{world}.cfg", workers=workers, timeout=timeout)
    tlc.require_ok(r, f"model checking MC_RuleSem on {world}")
    if r.distinct < 2:
        raise tlc.MachineryError("MC_RuleSem explored fewer than 2 states")
    return r


def emit_states(world: str, timeout=1200):
    """(R): every distinct state of the bounded model, as printed by TLC."""
    r = tlc.run("MC_RuleSem.tla", f"MC_RuleSem_emit_{world}.cfg", workers=1, timeout=timeout)
    tlc.require_ok(r, f"emitting states of MC_RuleSem on {world}")
    states = r.printed.get("STATE", [])
    if len(states) != r.distinct:
        raise tlc.MachineryError(f"emitted {len(states)} states, TLC found {r.distinct}")
    return states, r


def filters_of(modules):
    return [F("named", m) for m in modules], [F("sub", m) for m in modules]


def full_single_space(modules):
    named, sub = filters_of(modules)
    return list(rule_space(named, sub, max_batch=1, with_any=True))


def sampled_rules(rng, modules, n, max_batch=3, strict_bias=0.8):
    """Random rules over the modules of a world: all shapes, both kinds, batches of 1..max_batch."""
    mods = [tuple(m) for m in modules]
    out = []
    tries = 0
    while len(out) < n and tries < 50 * n:
        tries += 1
        ks, ko = rng.choice(["named", "sub"]), rng.choice(["named", "sub"])
        ns, no = rng.randint(1, max_batch), rng.randint(1, max_batch)
        subs = [F(ks, m) for m in rng.sample(mods, min(ns, len(mods)))]
        objs = [F(ko, m) for m in rng.sample(mods, min(no, len(mods)))]
        if rng.random() < 0.12:
            r = mk_rule("should_not", rng.choice(DIRS), False, subs, [], any_=True)
        else:
            r = mk_rule(rng.choice(VERBS), rng.choice(DIRS), rng.random() < 0.5, subs, objs)
        if not strict(r) and rng.random() < strict_bias:
            continue
        out.append(r)
    return out


def package_init_specs(rng, n, partners=False):
    """Worlds shaped like scanned trees: EVERY package has an '__init__' module, and those modules import, and are
    imported by, modules of other packages.  Rules speak about 'sub modules of X' for such packages X: X.__init__ is a
    sub module of X like any other.  Names are rendered as they are."""
    from harness.names import anc
    specs = []
    for _ in range(n):
        w = random_world(rng, n_modules=rng.randint(6, 14), n_imports=rng.randint(2, 14))
        inner = sorted({m[:i] for m in w.modules for i in range(1, len(m))})
        inits = [p + ("__init__",) for p in inner if p + ("__init__",) not in set(w.modules)]
        mods = sorted(set(w.modules) | set(inits))
        imps = set(w.imports)
        for im in inits:
            outside = [m for m in mods if not anc(im[:-1], m) and not anc(m, im)]
            for t in rng.sample(outside, min(len(outside), rng.randint(0, 2))):
                imps.add((im, t) if rng.random() < 0.6 else (t, im))
        w2 = World(mods, sorted(imps))
        ep = RuleEpisode(w2, render="ident")
        for p in rng.sample(inner, min(4, len(inner))):
            others = [m for m in mods if not anc(p, m) and not anc(m, p)]
            if not others:
                continue
            for _k in range(6):
                y = rng.choice(others)
                sub, obj = [F("sub", p)], [F(rng.choice(["named", "sub"]), y)]
                if rng.random() < 0.5:
                    sub, obj = obj, sub
                r = (mk_rule("should_not", rng.choice(DIRS), False, [F("sub", p)], [], any_=True) if rng.random() < 0.15
                     else mk_rule(rng.choice(VERBS), rng.choice(DIRS), rng.random() < 0.5, sub, obj))
                if partners:
                    ep.with_partners(r)
                else:
                    ep.eval(r)
        specs.append(ep.spec)
    return specs


def run_and_validate(specs, procs=16):
    episodes = runner.run_specs(specs, procs)
    tr = trace.validate(episodes, "Trace_Rules.tla", "Trace_Rules.cfg", procs=procs)
    return tr, episodes, attach(tr, specs, episodes)


def nontrivial_count(episodes):
    """Distinct <architecture, rule> evaluations in which at least one import touches a subject's sub-tree."""
    import json

    seen = set()
    evals = 0
    for ep in episodes:
        arch = {}
        for ev in ep:
            if ev["k"] in ("arch", "addimport"):
                arch[ev.get("a2") or ev["a"]] = ev
            elif ev["k"] == "eval":
                evals += 1
                a = arch[ev["a"]]
                subs = [tuple(f["name"]) for f in ev["rule"]["subs"] if f["kind"] in ("named", "sub")]
                subs += [tuple(m) for f in ev["rule"]["subs"] for m in f.get("matches", [])]
                touched = any(tuple(x[:len(s)]) == s for u, v in a["imports"] for x in (u, v) for s in subs)
                if touched:
                    seen.add(json.dumps([a["modules"], a["imports"], ev["rule"]], sort_keys=True))
    return evals, len(seen)


def suite_episode(timeout=1800):
    """(T) third trace source: the repository's own suite, run under /verif's pytest plugin (which wraps
    Rule.assert_applies from outside, in that pytest process only).  tests/test_architecture.py is deselected: its
    fixture spins for 900 s and then errors on every checkout of this sandbox (directory name)."""
    import json, os, subprocess, tempfile

    fd, out = tempfile.mkstemp(suffix=".ndjson", dir=tlc.scratch_root())
    os.close(fd)
    env = dict(os.environ, PYTESTARCH_VERIF_TRACE=out)
    env["PYTHONPATH"] = "/verif:" + env.get("PYTHONPATH", "")
    p = subprocess.run(["/venv/bin/python", "-m", "pytest", "-q", "-p", "no:cacheprovider", "-p", "harness.pytest_plugin",
                        "--deselect", "tests/test_architecture.py"], cwd="/repo", env=env,
                       stdout=subprocess.PIPE, stderr=subprocess.STDOUT, text=True, timeout=timeout)
    if not os.path.exists(out + ".meta"):
        raise tlc.MachineryError("repository suite did not run under the trace plugin:\n" + p.stdout[-1500:])
    meta = json.load(open(out + ".meta"))
    events = [json.loads(l) for l in open(out)] if os.path.getsize(out) else []
    if meta["evaluations"] < 50:
        raise tlc.MachineryError(f"repository suite produced only {meta['evaluations']} rule evaluations")
    return events, meta


def validate_suite():
    """-> (trace result, episodes, fails, meta) for the repository-suite trace.  The suite is an auxiliary trace source
    that reaches into two private attributes of Rule; if it cannot be recorded (plugin broken by a refactoring, suite
    not runnable) it is skipped and the evidence says so - the check's own worlds do not depend on it."""
    try:
        events, meta = suite_episode()
    except Exception as e:  # noqa: BLE001
        return trace.TraceResult(), [], [], {"evaluations": 0, "skipped": {"suite trace not recorded": str(e)[:300]}}
    tr = trace.validate([events], "Trace_Rules.tla", "Trace_Rules.cfg", procs=1)
    return tr, [events], attach(tr, [{"driver": "suite"}], [events]), meta
