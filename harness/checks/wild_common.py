"""Scan episodes on REAL source trees (harness/wild.py) for the scan properties: the same trace specification
(Trace_Scan), the same laws, inputs that no generator of /verif invented."""
from __future__ import annotations

import random

from harness import wild
from harness.checks import scan_common as sc
from harness.scandriver import _candidate_external_names

QUICK_SIZES = ("s", "m")
THOROUGH_SIZES = ("s", "m", "l", "xl")


def pick(ctx, rng, n_quick=5):
    cat = wild.catalogue()
    if not ctx.quick:
        return [c for c in cat if c[2] in THOROUGH_SIZES]
    fixed = [c for c in cat if c[0] == "pytestarch"]
    rest = [c for c in cat if c[2] in QUICK_SIZES and c[0] != "pytestarch"]
    return fixed + rng.sample(rest, min(n_quick - len(fixed), len(rest)))


def _subdirs(project, rng, n):
    subs = [d for d in project["dirs"] if len(d) > 1]
    return rng.sample(subs, min(n, len(subs)))


def _external_names(project, mpath):
    internal = {tuple(d) for d in project["dirs"]} | {tuple(f["name"]) for f in project["files"] if f["py"]}
    return [list(n) for n in _candidate_external_names(project, mpath) if n[0] != project["root"] and n not in internal]


def episode(project, rng, focus):
    """focus: the property whose check asks (decides which configurations and laws dominate)."""
    ep = sc.ScanEpisode(project)
    root = [project["root"]]
    s0 = ep.scan()
    depth = sc.depth_of(project)
    if focus in ("C02", "C04", "C15"):
        sm = ep.scan(entry="module")
        ep.law("entry", [s0, sm])
        for d in _subdirs(project, rng, 4):
            sd = ep.scan(mpath=d)
            ep.law("restrict", [s0, sd])
        s9 = ep.scan(shuffle=rng.randint(0, 999))
        ep.law("same", [s0, s9])
    if focus == "C08":
        entries = [d for d in project["dirs"] if len(d) > 1] + [f["name"] for f in project["files"]]
        for e in rng.sample(entries, min(5, len(entries))):
            shapes = sc.glob_shapes(project, e, rng)
            for shape in rng.sample(sorted(shapes), 2):
                s1 = ep.scan(excl={"kind": "glob", "patterns": [shapes[shape]]})
                ep.law("excl", [s0, s1])
                if rng.random() < 0.5:
                    s2 = ep.scan(excl={"kind": "regex", "patterns": [shapes[shape]], "from_glob": True})
                    ep.law("excl", [s0, s2])
        # two patterns at once
        if len(entries) >= 2:
            a, b = rng.sample(entries, 2)
            s3 = ep.scan(excl={"kind": "glob", "patterns": [sc.glob_shapes(project, a, rng)["*text*"],
                                                           sc.glob_shapes(project, b, rng)["*/text"]]})
            ep.law("excl", [s0, s3])
    if focus == "C09":
        for k in range(0, min(depth, 4) + 1):
            sk = ep.scan(limit=k)
            ep.law("quotient", [s0, sk])
            for i, rule in enumerate(sc.rules_above(sc.all_modules(project), 1 + k, rng, 6)):
                rid = f"Q{k}_{i}"
                ep.seval(s0, rid, rule)
                ep.seval(sk, rid, rule)
                ep.law("verdict", [s0, sk], rid)
        for d in _subdirs(project, rng, 2):
            sd = ep.scan(mpath=d)
            for k in (1, 2):
                sdk = ep.scan(mpath=d, limit=k)
                ep.law("quotient", [sd, sdk])
    if focus == "C10":
        s1 = ep.scan(ext=True)
        ep.law("internal", [s0, s1])
        ext = _external_names(project, root)
        pats = []
        for n in rng.sample(ext, min(4, len(ext))):
            dotted = ".".join(n)
            pats.append(rng.choice([dotted, "*" + n[-1], n[0] + "*", "*" + dotted[1:-1] + "*" if len(dotted) > 2 else dotted]))
        for p in pats:
            s2 = ep.scan(ext=True, extexcl={"kind": "glob", "patterns": [p]})
            ep.law("internal", [s0, s2])
        if len(pats) >= 2:
            s3 = ep.scan(ext=True, extexcl={"kind": "glob", "patterns": pats[:2]})
            ep.law("internal", [s1, s3])
            s4 = ep.scan(ext=True, extexcl={"kind": "regex", "patterns": pats[:1], "from_glob": True})
            ep.law("internal", [s0, s4])
        for d in _subdirs(project, rng, 2):
            sd = ep.scan(mpath=d)
            sde = ep.scan(mpath=d, ext=True)
            ep.law("internal", [sd, sde])
        for k in (0, 1, 2):
            a = ep.scan(limit=k)
            b = ep.scan(limit=k, ext=True)
            ep.law("internal", [a, b])
    return ep.spec


def specs(ctx, rng, focus, n_quick=5):
    out, labels = [], []
    for label, path, size in pick(ctx, rng, n_quick):
        try:
            project = wild.abstract(path)
        except Exception:  # noqa: BLE001
            continue
        if not any(f["py"] for f in project["files"]):
            continue
        out.append(episode(project, rng, focus))
        labels.append({"tree": label, "py_files": sum(1 for f in project["files"] if f["py"]),
                       "statements": len(project["stmts"])})
    return out, labels
