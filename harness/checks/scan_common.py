"""Shared machinery of the scan properties C02 C04 C08 C09 C10 (and the scan parts of C14 C15)."""
from __future__ import annotations

import random
import re

from harness import project as pj
from harness import runner, tlc, trace
from harness.checks import rules_common as rc
from harness.result import CheckResult, attach
from harness.rulesapi import DIRS, VERBS, F, mk_rule

BASE = "{BASE}"      # placeholder for the scratch directory in exclusion patterns, substituted by the driver


# ------------------------------------------------------------------------------------------------ TLC

def model_check(steps, timeout=3000):
    cfg = open(f"{tlc.SPEC_DIR}/MC_Scan_mc.cfg").read().replace("MaxSteps = 6", f"MaxSteps = {steps}")
    r = tlc.run("MC_Scan.tla", tlc.write_cfg(cfg), workers=16, timeout=timeout, coverage=True)
    tlc.require_ok(r, "model checking MC_Scan")
    tlc.require_actions_taken(r, ["DoMkDir", "DoMkFile", "DoAddStmt"], "MC_Scan")
    # vacuity guard: without the 'names above the limit' restriction the verdict law must fail somewhere
    g = tlc.run("MC_Scan.tla", tlc.write_cfg(cfg.replace("INVARIANT QuotientVerdict\n", "INVARIANT QuotientVerdictUnrestricted\n")),
                workers=16, timeout=timeout)
    if "QuotientVerdictUnrestricted" not in g.violated:
        raise tlc.MachineryError("vacuity guard: the unrestricted quotient-verdict law was not refuted by the model")
    return r


def emit_projects(steps, timeout=3000):
    cfg = open(f"{tlc.SPEC_DIR}/MC_Scan_emit.cfg").read().replace("MaxSteps = 6", f"MaxSteps = {steps}")
    r = tlc.run("MC_Scan.tla", tlc.write_cfg(cfg), workers=1, timeout=timeout)
    tlc.require_ok(r, "emitting MC_Scan projects")
    out = []
    for p in r.printed.get("PROJ", []):
        out.append({"root": "r", "dirs": p["dirs"], "files": [{"name": f, "py": True} for f in p["files"]],
                    "stmts": [{"file": s["file"], "form": s["form"], "level": s["level"], "module": s["module"],
                               "names": s["names"], "pos": s["pos"]} for s in p["stmts"]]})
    if len(out) != r.distinct:
        raise tlc.MachineryError(f"emitted {len(out)} projects, TLC found {r.distinct} states")
    return out, r


def model_check_positions(depth, emit, timeout=3000):
    slots = pj.usable_slots()
    cfg = tlc.write_cfg("SPECIFICATION Spec\nCONSTANTS\n  Slots = {%s}\n  MaxDepth = %d\n  EMIT = %s\n"
                        "INVARIANT PositionIndependent\n%sCHECK_DEADLOCK FALSE\n"
                        % (", ".join('"%s"' % s for s in slots), depth, "TRUE" if emit else "FALSE",
                           "INVARIANT EmitPosition\n" if emit else ""))
    r = tlc.run("MC_Positions.tla", cfg, workers=1 if emit else 16, timeout=timeout)
    tlc.require_ok(r, "model checking MC_Positions")
    return r, slots


# ------------------------------------------------------------------------------------------------ patterns

def entry_path(name, py=None):
    return BASE + "/" + "/".join(name) + (".py" if py else "")


def glob_shapes(project, entry, rng):
    """The four documented shapes built from one entry's own path text."""
    is_file = any(f["name"] == entry for f in project["files"])
    py = next((f["py"] for f in project["files"] if f["name"] == entry), None)
    full = entry_path(entry, py) if is_file else entry_path(entry)
    last = entry[-1] + (".py" if (is_file and py) else (".txt" if is_file else ""))
    return {"text": full, "*text": "*" + last, "text*": full + "*", "*text*": "*" + last + "*",
            "*/text": "*/" + last, "*text-part": "*" + last[max(0, len(last) // 2):],
            # the entry's bare name: a pattern without a leading star is matched from the START of the path, so these
            # two match no path at all; and the separator directly after the name: '*name/*' matches what lies below a
            # directory of that name but not the directory itself, '*name/' matches nothing
            "name": last, "name*": last + "*", "*text/*": "*" + last + "/*", "*text/": "*" + last + "/"}


# ------------------------------------------------------------------------------------------------ episodes

def rules_above(modules, keep, rng, n):
    """Strict single rules whose named modules have at most `keep` components ('sub modules of' parents fewer)."""
    # (names with regex metacharacters - legal file names, never imported - are scanned and flattened like any other
    # name but are not used in rules: C09's verdict law is about rules, not about how a rule spells an odd name)
    mods = [list(m) for m in modules if all(c.isidentifier() for c in m)]
    named = [F("named", m) for m in mods if len(m) <= keep]
    sub = [F("sub", m) for m in mods if len(m) < keep]
    fs = named + sub
    out = []
    tries = 0
    while len(out) < n and tries < 30 * n and len(fs) >= 2:
        tries += 1
        s, o = rng.sample(fs, 2)
        if s["name"][:len(o["name"])] == o["name"] or o["name"][:len(s["name"])] == s["name"]:
            continue
        out.append(mk_rule(rng.choice(VERBS), rng.choice(DIRS), rng.random() < 0.5, [s], [o]))
    return out


class ScanEpisode:
    def __init__(self, project):
        self.project = project
        self.items = []
        self.n = 0

    def scan(self, mpath=None, **kw):
        sid = f"S{self.n}"
        self.n += 1
        self.items.append({"op": "scan", "id": sid, "mpath": list(mpath or [self.project["root"]]), **kw})
        return sid

    def law(self, law, scans, rid=""):
        self.items.append({"op": "law", "law": law, "scans": list(scans), "rid": rid})

    def seval(self, scan, rid, rule):
        self.items.append({"op": "seval", "scan": scan, "rid": rid, "rule": rule})

    @property
    def spec(self):
        return {"driver": "scan", "project": self.project, "items": self.items}


def all_modules(project):
    return [list(d) for d in project["dirs"]] + [f["name"] for f in project["files"] if f["py"]]


def depth_of(project):
    return max([len(m) for m in all_modules(project)] + [1])


def run_and_validate(specs, procs=16):
    episodes = runner.run_specs(specs, procs)
    tr = trace.validate(episodes, "Trace_Scan.tla", "Trace_Scan.cfg", procs=procs, max_events_per_batch=1500)
    return tr, episodes, attach(tr, specs, episodes)


def stats(episodes):
    scans = [e for ep in episodes for e in ep if e["k"] == "scan"]
    laws = {}
    for ep in episodes:
        for e in ep:
            if e["k"] == "law":
                laws[e["law"]] = laws.get(e["law"], 0) + 1
    return {"scans": len(scans), "scans_ok": sum(1 for s in scans if s["out"] == "ok"),
            "scan_errors": sum(1 for s in scans if s["out"] != "ok"),
            "modules_observed": sum(len(s["modules"]) for s in scans),
            "imports_observed": sum(len(s["imports"]) for s in scans),
            "statements": sum(len(ep[0]["stmts"]) for ep in episodes if ep and ep[0]["k"] == "proj"),
            "sevals": sum(1 for ep in episodes for e in ep if e["k"] == "seval"), "law_instances": laws}


def replay(ctx, rp):
    if rp["spec"].get("driver") == "graph":
        from harness import runner, trace
        from harness.result import attach
        episodes = runner.run_specs([rp["spec"]], 1)
        tr = trace.validate(episodes, "Trace_Graph.tla", "Trace_Graph.cfg", procs=1)
        return CheckResult(fails=attach(tr, [rp["spec"]], episodes), coverage={"replayed_events": tr.events})
    if rp["spec"].get("driver") == "suite-scans":
        tr, episodes, fails, _ = validate_suite_scans()
        return CheckResult(fails=fails, coverage={"replayed_events": tr.events})
    tr, episodes, fails = run_and_validate([rp["spec"]], procs=1)
    return CheckResult(fails=fails, coverage={"replayed_events": tr.events})


def validate_suite_scans():
    """(T) the repository's own suite as a trace source for scans: every call of an entry point the suite makes on
    its resource projects (module_path at and below the root, exclusions, externals with glob / regex exclusions, level
    limits) is recorded by /verif's pytest plugin together with the tree as found on disk (harness/wild.py) and
    validated by Trace_Scan.  -> (trace result, episodes, fails, meta); skipped (and said so) if it cannot be recorded."""
    import json, os, subprocess, tempfile

    try:
        fd, out = tempfile.mkstemp(suffix=".ndjson", dir=tlc.scratch_root())
        os.close(fd)
        env = dict(os.environ, PYTESTARCH_VERIF_TRACE=out, PYTHONDONTWRITEBYTECODE="1")
        env["PYTHONPATH"] = "/verif:" + env.get("PYTHONPATH", "")
        p = subprocess.run(["/venv/bin/python", "-m", "pytest", "-q", "-p", "no:cacheprovider", "-p", "harness.pytest_plugin",
                            "--deselect", "tests/test_architecture.py"], cwd="/repo", env=env,
                           stdout=subprocess.PIPE, stderr=subprocess.STDOUT, text=True, timeout=1800)
        meta = json.load(open(out + ".meta"))["scan_stats"]
        evs = [json.loads(l) for l in open(out + ".scans")]
        episodes = [evs[i:i + 2] for i in range(0, len(evs), 2)]
        if len(episodes) < 5:
            raise tlc.MachineryError(f"only {len(episodes)} scans recorded")
    except Exception as e:  # noqa: BLE001
        return trace.TraceResult(), [], [], {"scans": 0, "skipped": {"suite scans not recorded": str(e)[:300]}}
    tr = trace.validate(episodes, "Trace_Scan.tla", "Trace_Scan.cfg", procs=4)
    specs = [{"driver": "suite-scans"}] * len(episodes)
    return tr, episodes, attach(tr, specs, episodes), meta
