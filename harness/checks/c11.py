"""C11 - regex, partial-name and batched specifications equal their expansions."""
from __future__ import annotations

import random
import re

from harness import globs
from harness.checks import rules_common as rc
from harness.episodes import RuleEpisode
from harness.names import dotted
from harness.result import CheckResult
from harness.rulesapi import DIRS, VERBS, F, mk_rule
from harness.world import random_world

ASSUMPTIONS = [
    "match sets of regexes are computed by the harness with re.match on the module names (the anchoring C11 states) "
    "and are inputs to the specification",
    "the partial-name form is compared with the regex the harness derives from the documented glob shapes",
    "regexes are built from the architecture's own names: anchored names, prefixes, alternations, character classes",
]


def _regexes(rng, modules):
    names = [dotted(m) for m in modules]
    esc = [re.escape(n) for n in names]
    out = []
    a, b = rng.sample(esc, 2)
    out.append(a + "$")                                     # one anchored name
    out.append(a)                                           # prefix: the name and everything it starts
    out.append(f"({a}|{b})$")                               # alternation
    out.append(f"{a}$|{b}$")                                # ungrouped top-level alternation
    out.append(f"zzz_none|{b}")                             # ... whose first alternative matches nothing
    out.append(f"(?:{b})$")                                 # non-capturing group
    out.append(f"(?i){a.upper()}$")                         # inline flag
    out.append(f"(?={a}){a}$")                              # look-ahead
    out.append(".*")                                        # everything
    n = rng.choice(names)
    if len(n) > 2:
        out.append(re.escape(n[:-1]) + "[a-z]$")            # character class for the last letter
    out.append(re.escape(n.rsplit(".", 1)[0]) + r"\.[^.]+$" if "." in n else a + "$")   # all children of a parent
    out.append(r".*\." + re.escape(n.rsplit(".", 1)[-1]) + "$")    # by last component
    out.append("zzz_nothing_matches")                       # no match -> must be an error
    return out


def _partials(rng, modules):
    names = [dotted(m) for m in modules]
    n = rng.choice(names)
    alike = _dot_lookalikes(modules)
    if alike and rng.random() < 0.7:
        n = rng.choice(alike)
    last = n.rsplit(".", 1)[-1]
    tail2 = ".".join(n.split(".")[-2:])
    return [n, n, "*" + last, n[: max(1, len(n) - 1)] + "*", "*" + last[:1] + "*", "*." + last, "*" + tail2, tail2 + "*",
            "*" + tail2 + "*", "nomatch_zzz"]


# components that are look-alikes of dotted names: 'r.a.b' next to 'r.a_b' / 'r.axb' - a dot of a partial name (or of an
# escaped regex) that is read as a wildcard matches the sibling as well
LOOKALIKE_POOL = ["a", "b", "c", "a_b", "axb", "a_c", "axc", "b_c", "bxc", "a_b_c", "ab", "d"]


def with_lookalikes(rng, w):
    """Make sure the world has a dotted name with a look-alike sibling (p.a.b next to p.a_b / p.axb), both importing
    and imported differently, so that confusing the two changes verdicts."""
    from harness.world import World, candidate_imports
    p = rng.choice([m for m in w.modules if len(m) <= 3])
    x, y = rng.choice([("a", "b"), ("b", "c"), ("a", "c")])
    extra = [p + (x,), p + (x, y), p + (f"{x}{rng.choice('_x')}{y}",)]
    mods = sorted(set(w.modules) | set(extra))
    cand = [e for e in candidate_imports(mods) if e[0] in extra[1:] or e[1] in extra[1:]]
    return World(mods, list(w.imports) + rng.sample(cand, min(len(cand), rng.randint(1, 4))))


def _dot_lookalikes(modules):
    """Names that some other module's name equals up to the characters at this name's dots."""
    names = [dotted(m) for m in modules]
    out = []
    for n in names:
        dots = [i for i, ch in enumerate(n) if ch == "."]
        for o in names:
            if o != n and len(o) == len(n) and all(a == b or i in dots for i, (a, b) in enumerate(zip(n, o))):
                out.append(n)
                break
    return out


def specs_for(ctx):
    rng = random.Random(ctx.seed * 7919 + 11)
    specs = []
    counts = {"regex": 0, "partial": 0, "batch": 0}
    n_worlds = 120 if ctx.quick else 2500
    for _ in range(n_worlds):
        lookalike = rng.random() < 0.4
        w = random_world(rng, n_modules=rng.randint(5, 18), n_imports=rng.randint(3, 40),
                         pool=LOOKALIKE_POOL if lookalike else None)
        if lookalike:
            w = with_lookalikes(rng, w)
        ep = RuleEpisode(w)
        mods = w.modules
        for _k in range(14):
            verb, d, exc = rng.choice(VERBS), rng.choice(DIRS), rng.random() < 0.5
            other = [F(rng.choice(["named", "sub"]), rng.choice(mods))]
            side = rng.choice(["subs", "objs"])
            if rng.random() < 0.6:
                pat = rng.choice(_regexes(rng, mods))
                comp_f = [{"kind": "regex", "name": ["regex"], "matches": [], "pat": pat}]
                matches = [m for m in mods if re.match(pat, dotted(m))]
                kind = "regex"
            else:
                g = rng.choice(_partials(rng, mods))
                rx = globs.to_regex(g)
                comp_f = [{"kind": "partial", "name": ["partial"], "matches": [], "pat": g, "regex_of_partial": rx}]
                matches = [m for m in mods if re.match(rx, dotted(m))]
                kind = "partial"
            if kind == "partial" and rng.random() < 0.25:
                # a list of partial names: every pattern must match something - one that matches nothing is an
                # error even when its neighbour matches
                extra = {"kind": "partial", "name": ["partial"], "matches": [], "pat": "zz_no_such*",
                         "regex_of_partial": globs.to_regex("zz_no_such*")}
                comp_f = comp_f + [extra] if rng.random() < 0.5 else [extra] + comp_f
                matches = []
            counts[kind] += 1
            exp_f = [F("named", m) for m in matches]
            compact = mk_rule(verb, d, exc, comp_f if side == "subs" else other, other if side == "subs" else comp_f)
            r1 = ep.eval(compact)
            if matches:
                expanded = mk_rule(verb, d, exc, exp_f if side == "subs" else other, other if side == "subs" else exp_f)
                r2 = ep.eval(expanded)
                ep.law("expand", [r1, r2])
                if rng.random() < 0.3 and len(comp_f) == 1:
                    # the two 'anything' aliases and the spelled-out 'except itself' with the compact form as subject: a
                    # regex that matches a package together with its sub modules means the list of all of them
                    da = rng.choice(DIRS)
                    a1 = ep.eval(mk_rule("should_not", da, False, comp_f, [], any_=True))
                    a2 = ep.eval(mk_rule("should_not", da, False, exp_f, [], any_=True))
                    ep.law("expand", [a1, a2])
                    counts["any"] = counts.get("any", 0) + 1
                if kind == "partial":
                    rx_f = [{"kind": "regex", "name": ["regex"], "matches": [], "pat": comp_f[0]["regex_of_partial"]}]
                    r3 = ep.eval(mk_rule(verb, d, exc, rx_f if side == "subs" else other, other if side == "subs" else rx_f))
                    ep.law("partial", [r1, r3])
        # batches of 1..3 incl. related modules: conjunction laws
        for rule in rc.sampled_rules(rng, mods, 12, max_batch=3, strict_bias=0.0):
            if len(rule["subs"]) > 1 or len(rule["objs"]) > 1:
                counts["batch"] += 1
                ep.with_partners(rule)
        specs.append(ep.spec)
        # the same laws with names that are string prefixes / substrings of their siblings (named filters only)
        ep2 = RuleEpisode(w, render=rng.choice(["adv", "adv2"]))
        for rule in rc.sampled_rules(rng, mods, 14, max_batch=3, strict_bias=0.3):
            if len(rule["subs"]) > 1 or len(rule["objs"]) > 1:
                counts["batch"] += 1
                ep2.with_partners(rule)
        specs.append(ep2.spec)
    return specs, {"random_worlds": n_worlds, "generated": counts}


def run(ctx):
    mc = rc.model_check("W4" if ctx.quick else "W5")      # BatchSubjects / BatchObjects on the model
    specs, meta = specs_for(ctx)
    tr, episodes, fails = rc.run_and_validate(specs)
    laws = {}
    for ep in episodes:
        for e in ep:
            if e["k"] == "law":
                laws[e["law"]] = laws.get(e["law"], 0) + 1
    nomatch = sum(1 for ep in episodes for e in ep if e["k"] == "eval" and any(
        f["kind"] in ("regex", "partial") and not f["matches"] for f in e["rule"]["subs"] + e["rule"]["objs"]))
    if not (laws.get("expand") and laws.get("partial") and laws.get("batchsub") and laws.get("batchobj") and nomatch):
        from harness.tlc import MachineryError
        raise MachineryError(f"vacuous run: {laws} nomatch={nomatch}")
    evals, nontrivial = rc.nontrivial_count(episodes)
    sample = next(e for ep in episodes for e in ep if e["k"] == "eval" and e["rule"]["subs"][0]["kind"] == "regex")
    cov = {"states": mc.distinct + tr.states, "transitions": mc.generated + tr.transitions, "model_states": mc.distinct,
           "traces_validated_against_impl": len(episodes), "trace_events": tr.events, "law_instances": laws,
           "no_match_cases": nomatch, "evaluations": evals, "distinct_nontrivial": nontrivial,
           "rule": "one case = compact rule (regex / partial name / batch) + its expansion evaluated on the same real "
                   "architecture; verdict and parsed message compared by the trace specification",
           "exhaustive": False, "samples": [sample], **meta}
    return CheckResult(fails=fails, coverage=cov, assumptions=ASSUMPTIONS)


def replay(ctx, rp):
    tr, episodes, fails = rc.run_and_validate([rp["spec"]], procs=1)
    return CheckResult(fails=fails, coverage={"replayed_events": tr.events})
