"""./check <Cnn> [--tier quick|thorough] [--replay <file>] [--selftest]

exit 0  the property held on everything explored (known findings are printed as KNOWN-FINDING lines)
exit 1  VIOLATION property=<id> replay=<path>
exit 2  machinery failure (TLC error, model-level failure, vacuity, renderer self-check) - not a verdict
"""
from __future__ import annotations

import argparse
import importlib
import json
import os
import sys
import time
import traceback

import warnings

warnings.filterwarnings("ignore", category=DeprecationWarning)
os.environ.setdefault("PYTHONWARNINGS", "ignore::DeprecationWarning")

from harness import findings, tlc

ROOT = os.path.dirname(os.path.dirname(os.path.abspath(__file__)))
PROPS = [f"C{i:02d}" for i in range(1, 18)]


class Ctx:
    def __init__(self, prop, tier, seed, selftest=False):
        self.prop, self.tier, self.seed, self.selftest = prop, tier, seed, selftest
        self.quick = tier == "quick"


def _write_evidence(prop, tier, seed, level, coverage, wall, violations, assumptions):
    os.makedirs(os.path.join(ROOT, "evidence"), exist_ok=True)
    ev = {"property_id": prop, "tier": tier, "seed": seed, "level": level, "coverage": coverage,
          "assumptions": assumptions, "wall_s": round(wall, 2), "violations": violations}
    tmp = os.path.join(ROOT, "evidence", f".{prop}.json.tmp")
    with open(tmp, "w") as f:
        json.dump(ev, f, indent=1, sort_keys=True, default=str)
    os.replace(tmp, os.path.join(ROOT, "evidence", f"{prop}.json"))


def main(argv=None):
    ap = argparse.ArgumentParser()
    ap.add_argument("prop")
    ap.add_argument("--tier", default=os.environ.get("VERIF_TIER", "quick"), choices=["quick", "thorough"])
    ap.add_argument("--replay")
    ap.add_argument("--selftest", action="store_true")
    args = ap.parse_args(argv)
    prop = args.prop.upper()
    if prop not in PROPS:
        print(f"unknown property {prop}", file=sys.stderr)
        return 2
    try:
        seed = int(os.environ.get("VERIF_SEED", "0") or 0)
    except ValueError:
        seed = 0
    mod = importlib.import_module(f"harness.checks.{prop.lower()}")
    ctx = Ctx(prop, args.tier, seed, args.selftest)
    t0 = time.time()
    try:
        if args.replay:
            with open(args.replay) as f:
                rp = json.load(f)
            out = mod.replay(ctx, rp)
        elif args.selftest:
            from harness import selftest
            out = selftest.run(ctx)
        else:
            out = mod.run(ctx)
    except tlc.MachineryError as e:
        print(f"MACHINERY-FAILURE property={prop}: {e}", file=sys.stderr)
        tlc.cleanup_scratch()
        return 2
    except Exception:
        traceback.print_exc()
        print(f"MACHINERY-FAILURE property={prop}: harness exception", file=sys.stderr)
        tlc.cleanup_scratch()
        return 2
    finally:
        pass
    wall = time.time() - t0
    tlc.cleanup_scratch()

    if args.selftest:
        print(json.dumps(out, indent=1))
        return 0 if out.get("ok") else 2

    # ---- triage of what the trace specification reported
    mach = [f for f in out.fails if f["prop"] == "MACHINERY"]
    if mach:
        for f in mach[:5]:
            print(f"MACHINERY-FAILURE property={prop}: clause {f['clause']} {json.dumps(f.get('detail'))[:200]}",
                  file=sys.stderr)
        return 2
    # TIMEOUT: a call into the real code did not return within the watchdog limit - no verdict was produced
    mine = [f for f in out.fails if prop in f["prop"].split(",") or f["prop"] == "TIMEOUT"]
    entries = findings.load()
    known, new = {}, []
    for f in mine:
        e = findings.match(f, f.get("episode_events"), entries)
        if e is not None:
            known.setdefault(e["id"], [e, 0])[1] += 1
        else:
            new.append(f)
    for fid, (e, n) in sorted(known.items()):
        print(f"KNOWN-FINDING: property={prop} {e['what']} [{fid}, {n} case(s) this run]")
    os.makedirs(os.path.join(ROOT, "out"), exist_ok=True)
    seen = set()
    n_viol = 0
    for f in new:
        key = (f["clause"],)
        if key in seen:
            continue
        seen.add(key)
        n_viol += 1
        path = os.path.join(ROOT, "out", f"{prop}-{f['clause']}-{seed}.json")
        with open(path, "w") as fh:
            json.dump({"property": prop, "clause": f["clause"], "detail": f.get("detail"),
                       "event": f.get("event"), "spec": f.get("spec"), "count_this_clause":
                           sum(1 for g in new if g["clause"] == f["clause"])}, fh, indent=1, default=str)
        print(f"VIOLATION property={prop} replay={path}")
        print(f"  clause={f['clause']} cases={sum(1 for g in new if g['clause'] == f['clause'])}"
              f" first={json.dumps(f.get('event'), default=str)[:600]}")
    if not args.replay and not os.environ.get("VERIF_NO_EVIDENCE"):      # (set by tools/ when a check is pointed at a seeded change)
        cov = dict(out.coverage)
        cov.setdefault("known_finding_cases", {k: v[1] for k, v in known.items()})
        _write_evidence(prop, args.tier, seed, out.level, cov, wall, len(new), out.assumptions)
    if new:
        return 1
    print(f"OK property={prop} tier={args.tier} seed={seed} wall={wall:.1f}s "
          f"{ {k: v for k, v in out.coverage.items() if isinstance(v, (int, float, bool))} }")
    return 0


if __name__ == "__main__":
    sys.exit(main())
