"""Runs 'rule episodes' on the real code and records one event per public call.

An episode spec is pure data (so it can be stored as a replay file):
  {"driver": "rules", "world": {modules, imports}, "render": "ident"|"clean"|"adv", "path": "graph",
   "items": [ {"op":"eval","a":0,"rid":"R1","rule":{...},"single_as_string":true},
              {"op":"addimport","a":0,"a2":1,"e":[u,v]},
              {"op":"law","law":"dual","as":[0,0],"rids":["R1","R2"]} ]}
"""
from __future__ import annotations

import re

from harness import names
from harness.rulesapi import evaluate
from harness.world import World, build_real, observe


def _renderer(kind):
    if kind == "ident":
        return names.dotted, None
    rn = {"clean": names.rho_clean, "adv": names.rho_adversarial, "adv2": names.rho_adversarial2,
          "adv3": names.rho_adversarial3, "adv4": names.rho_adversarial4, "case": names.rho_case}[kind]()
    return rn.name, rn.back


def _fill_matches(rule, world, render):
    """Match sets of regex / partial-name filters are inputs to the specification, computed here with
    re.match on the rendered names - the anchoring C11 states (independent of the module name converter)."""
    from pytestarch.utils.partial_match_to_regex_converter import convert_partial_match_to_regex  # only for 'partial'

    out = dict(rule)
    for side in ("subs", "objs"):
        fs = []
        for f in rule[side]:
            f = dict(f)
            if f["kind"] in ("regex", "partial"):
                pat = f["pat"] if f["kind"] == "regex" else None
                if f["kind"] == "partial":
                    pat = f.get("regex_of_partial")
                f["matches"] = [list(m) for m in world.modules if re.match(pat, render(m)) is not None]
                f["name"] = [f["kind"]]
            fs.append({k: f[k] for k in ("kind", "name", "matches")})
        out[side] = fs
    return out


def run_episode(spec, uid="E"):
    events = []
    for _ in iter_episode(spec, uid, None, events):
        pass
    return events


def iter_episode(spec, uid="E", shared=None, events=None):
    """Generator form: yields after every item, so a session driver can interleave several episodes (of different
    drivers) that share the same real architectures (`shared`: (world number, rendering) -> (evaluable, render, back))."""
    default_kind = spec.get("render", "ident")
    worlds = {0: World(spec["world"]["modules"], spec["world"]["imports"])}
    for n, w in (spec.get("more_worlds") or {}).items():      # further architectures with OTHER module trees
        worlds[int(n)] = World(w["modules"], w["imports"])
    reals = shared if shared is not None else {}
    events = events if events is not None else []
    logged = set()
    objs = {}       # persistent rule objects ("obj": id), re-applied any number of times to any architecture

    # an architecture is addressed by its world number, or by [world number, rendering] (C14: the same abstract
    # world rendered under several injective component renamings inside one episode)
    def key(a):
        return (a[0], a[1]) if isinstance(a, (list, tuple)) else (a, default_kind)

    def aid(a):
        n, kind = key(a)
        return f"{uid}.A{n}" if kind == default_kind else f"{uid}.A{n}{kind}"

    def real(a):
        k = key(a)
        if k not in reals:
            render, back = _renderer(k[1])
            reals[k] = (build_real(worlds[k[0]], render), render, back)
        if k not in logged:
            logged.add(k)
            events.append({"k": "arch", "a": aid(a), "first": not events, **observe(reals[k][0], reals[k][2]),
                           "given": worlds[k[0]].json()})
        return reals[k]

    referenced = {(key(a), rid) for it in spec["items"] if it["op"] == "law" for a, rid in zip(it["as"], it["rids"])}
    from collections import Counter
    n_evals = Counter((key(it["a"]), it["rid"]) for it in spec["items"] if it["op"] == "eval")
    for it in spec["items"]:
        op = it["op"]
        if op == "eval":
            ev, render, back = real(it["a"])
            before = observe(ev, back)
            if it.get("obj") is not None:
                from harness.rulesapi import apply as apply_rule, build as build_rule
                try:
                    if it["obj"] not in objs:
                        objs[it["obj"]] = build_rule(it["rule"], render, it.get("single_as_string", True))
                    o = apply_rule(objs[it["obj"]], ev, back)
                except AssertionError:
                    raise
                except Exception as e:  # noqa: BLE001
                    o = {"out": "error", "real": [], "miss": [], "bad": [], "raw": f"{type(e).__name__}: {e}"}
            else:
                o = evaluate(it["rule"], ev, render, back, it.get("single_as_string", True))
            k = (key(it["a"]), it["rid"])
            extra = {}
            if it.get("fresh"):       # C15: the same configuration evaluated in isolation (fresh architecture and rule)
                o2 = evaluate(it["rule"], build_real(worlds[key(it["a"])[0]], render), render, back,
                              it.get("single_as_string", True))
                extra["fresh_same"] = all(o[f] == o2[f] for f in ("out", "real", "miss", "bad", "raw"))
            events.append({"k": "eval", "a": aid(it["a"]), "rid": it["rid"], **extra,
                           "rule": _fill_matches(it["rule"], worlds[key(it["a"])[0]], render),
                           "out": o["out"], "real": o["real"],
                           "miss": [{"other": m["other"], "sub": m["sub"], "objs": m["objs"]} for m in o["miss"]],
                           "bad": o["bad"], "same": observe(ev, back) == before,
                           "keep": k in referenced or n_evals[k] > 1 or it.get("keep", False),
                           "raw": o["raw"][:2000]})
        elif op == "addimport":
            real(it["a"])
            _, render, back = real(it["a"])
            e = (tuple(it["e"][0]), tuple(it["e"][1]))
            n2, kind2 = key(it["a2"])
            worlds[n2] = worlds[key(it["a"])[0]].with_import(e)
            if (n2, kind2) not in reals:
                reals[(n2, kind2)] = (build_real(worlds[n2], render), render, back)
            logged.add((n2, kind2))
            events.append({"k": "addimport", "a": aid(it["a"]), "a2": aid(it["a2"]),
                           "e": [list(e[0]), list(e[1])], **observe(reals[(n2, kind2)][0], back)})
        elif op == "query":
            from harness.rulesapi import real_filter
            ev, render, back = real(it["a"])
            deps = [real_filter(f, render) for f in it["dependents"]]
            upons = [real_filter(f, render) for f in it["upons"]]
            conv = (lambda s_: s_.split(".")) if back is None else back

            def fj(m):  # Module / ModuleGroup -> abstract filter key
                return {"kind": "named" if m.is_single_module else "sub", "name": conv(m.identifier)}

            if it["q"] == "deps":
                res = ev.get_dependencies(deps, upons)
                result = [{"key": [fj(k[0]), fj(k[1])], "deps": [[conv(d[0].identifier), conv(d[1].identifier)] for d in v]}
                          for k, v in res.items()]
            else:
                fn = (ev.any_dependencies_from_dependents_to_modules_other_than_dependent_upons if it["q"] == "other_from"
                      else ev.any_other_dependencies_on_dependent_upons_than_from_dependents)
                res = fn(deps, upons)
                result = [{"key": [fj(k)], "deps": [[conv(d[0].identifier), conv(d[1].identifier)] for d in v]}
                          for k, v in res.items()]
            strip = lambda fs: [{k: f[k] for k in ("kind", "name", "matches")} for f in fs]
            events.append({"k": "query", "a": aid(it["a"]), "q": it["q"], "dependents": strip(it["dependents"]),
                           "upons": strip(it["upons"]), "result": result})
        elif op == "law":
            events.append({"k": "law", "law": it["law"], "as": [aid(a) for a in it["as"]], "rids": it["rids"]})
        elif op == "touch":
            real(it["a"])
        else:
            raise ValueError(op)
        yield events


# ------------------------------------------------------------------ helpers to write specs

def strict(rule) -> bool:
    subs = [tuple(f["name"]) for f in rule["subs"]]
    objs = [tuple(f["name"]) for f in rule["objs"]]

    def unrel(xs):
        return all(not names.related(a, b) for i, a in enumerate(xs) for b in xs[i + 1:])

    if not unrel(subs):
        return False
    if rule["any"]:
        return True
    return unrel(objs) and all(not names.related(s, o) for s in subs for o in objs)


def partner_items(rule, rid, a=0):
    """The partner evaluations and law events C12 states for `rule` (which is evaluated as `rid` itself)."""
    from harness.rulesapi import mk_rule

    items = []
    v, d, x = rule["verb"], rule["dir"], rule["exc"]
    single = len(rule["subs"]) == 1 and len(rule["objs"]) == 1
    if rule["any"]:
        r2 = mk_rule("should_not", d, True, rule["subs"], rule["subs"])
        items += [{"op": "eval", "a": a, "rid": rid + "x", "rule": r2},
                  {"op": "law", "law": "any", "as": [a, a], "rids": [rid, rid + "x"]}]
        return items
    if v in ("should", "should_not") and not x:
        r2 = mk_rule(v, "imported" if d == "import" else "import", False, rule["objs"], rule["subs"])
        items += [{"op": "eval", "a": a, "rid": rid + "d", "rule": r2},
                  {"op": "law", "law": "dual", "as": [a, a], "rids": [rid, rid + "d"]}]
    if v == "should" and single:
        r2 = mk_rule("should_not", d, x, rule["subs"], rule["objs"])
        items += [{"op": "eval", "a": a, "rid": rid + "n", "rule": r2},
                  {"op": "law", "law": "neg", "as": [a, a], "rids": [rid, rid + "n"]}]
    if v == "should_only":
        r2 = mk_rule("should", d, x, rule["subs"], rule["objs"])
        r3 = mk_rule("should_not", d, not x, rule["subs"], rule["objs"])
        items += [{"op": "eval", "a": a, "rid": rid + "s", "rule": r2},
                  {"op": "eval", "a": a, "rid": rid + "t", "rule": r3},
                  {"op": "law", "law": "decomp", "as": [a, a, a], "rids": [rid, rid + "s", rid + "t"]}]
    return items


def batch_items(rule, rid, a=0):
    """C11: batch = conjunction of the single-subject rules (always) / single-object rules (plain should, should_not)."""
    from harness.rulesapi import mk_rule

    items = []
    if rule["any"]:
        return items
    if len(rule["subs"]) > 1:
        rids = [rid]
        for i, s in enumerate(rule["subs"]):
            r2 = mk_rule(rule["verb"], rule["dir"], rule["exc"], [s], rule["objs"])
            items.append({"op": "eval", "a": a, "rid": f"{rid}bs{i}", "rule": r2})
            rids.append(f"{rid}bs{i}")
        items.append({"op": "law", "law": "batchsub", "as": [a] * len(rids), "rids": rids})
    if len(rule["objs"]) > 1 and not rule["exc"] and rule["verb"] in ("should", "should_not"):
        rids = [rid]
        for i, o in enumerate(rule["objs"]):
            r2 = mk_rule(rule["verb"], rule["dir"], rule["exc"], rule["subs"], [o])
            items.append({"op": "eval", "a": a, "rid": f"{rid}bo{i}", "rule": r2})
            rids.append(f"{rid}bo{i}")
        items.append({"op": "law", "law": "batchobj", "as": [a] * len(rids), "rids": rids})
    return items
