"""Replays builder call histories on the real fluent classes and records one event per call.

Episode spec: {"driver":"builders","which":"rule"|"arch"|"lrule"|"diag","hist":[call,...],
               "asserts":[world json,...], "show": bool}
A call is abstract data (what the TLA+ model emits): {"m": method, ...}; list arguments carry abstract filters /
names / layer names plus the Python shape to use ("list": bool).
"""
from __future__ import annotations

import os
import re
import tempfile

from harness.names import dotted
from harness.world import World, build_real

GOOD_PUML = "@startuml\n[r.a] --> [r.b]\n@enduml\n"
NOTAGS_PUML = "[r.a] --> [r.b]\n"
PUML_FILES = {"good": GOOD_PUML, "notags": NOTAGS_PUML,
              "startonly": "@startuml\n[r.a] --> [r.b]\n",                  # truncated file: no end tag
              "endonly": "[r.a] --> [r.b]\n@enduml\n",
              "reversed": "@enduml\n[r.a] --> [r.b]\n@startuml\n"}


def _outcome(fn):
    try:
        fn()
    except AssertionError:
        return "fail"
    except Exception as e:
        return "error", type(e).__name__
    return "pass"


def _call(fn):
    try:
        r = fn()
    except AssertionError:
        raise
    except Exception as e:
        return "error", type(e).__name__, None
    return "ok", "", r


def _rule_arg(c):
    fs = c["filters"]
    if c["m"] == "have_name_matching":
        return fs[0].get("pat") or (re.escape(dotted(fs[0]["name"])) + "$")
    if c["m"] == "have_name_containing":
        vals = [f.get("pat") or dotted(f["name"]) for f in fs]
    else:
        vals = [dotted(f["name"]) for f in fs]
    return vals if (c.get("list") or len(vals) != 1) else vals[0]


def _norm_filters(c):
    out = []
    for f in c.get("filters", []):
        g = {"kind": f["kind"], "name": list(f["name"]), "matches": [list(m) for m in f.get("matches", [])]}
        if c["m"] in ("have_name_matching", "have_name_containing") and g["kind"] == "named":
            # the model's regex / partial-name argument denotes exactly this module
            g = {"kind": "regex" if c["m"] == "have_name_matching" else "partial", "name": ["pattern"],
                 "matches": [list(f["name"])]}
        out.append(g)
    return out


def run_episode(spec, uid="E"):
    from pytestarch import DiagramRule, LayeredArchitecture, LayerRule, Rule

    which = spec["which"]
    h = f"{uid}.H"
    events = [{"k": "new", "h": h, "which": which, "first": True}]

    def definition(a):
        return [{"name": name, "items": [["regex"] if mf.identifier_is_regex else mf.identifier.split(".") for mf in a[name]]}
                for name in a._modules_by_layer_name]

    tmpdir = None
    excs = {}
    if which == "rule":
        obj = Rule()
    elif which == "arch":
        obj = LayeredArchitecture()
    elif which == "lrule":
        obj = LayerRule()
        arch = (LayeredArchitecture().layer("L1").containing_modules(["r.a"]).layer("L2").containing_modules(["r.b"])
                .layer("L3").containing_modules("r.c"))
        events[0]["basis"] = definition(arch)
    else:
        obj = DiagramRule(should_only_rule=spec.get("should_only", True))
        tmpdir = tempfile.mkdtemp(prefix="verif-puml-", dir="/dev/shm" if os.path.isdir("/dev/shm") else None)
        for name, text in PUML_FILES.items():
            with open(os.path.join(tmpdir, name + ".puml"), "w") as f:
                f.write(text)
    def do_asserts(worlds):
        for wj in worlds:
            w = World(wj["modules"], wj["imports"])
            ev = build_real(w)
            o = _outcome(lambda: obj.assert_applies(ev))
            exc = ""
            if isinstance(o, tuple):
                o, exc = o
                excs[exc] = excs.get(exc, 0) + 1
            events.append({"k": "assert", "h": h, "arch": w.json(), "out": o, "exc": exc})
            if which == "lrule":
                events.append({"k": "basis", "h": h, "layers": definition(arch)})

    try:
        for c in spec["hist"]:
            m = c["m"]
            if m == "assert_applies":
                # an evaluation in the middle of the history: the object is used, then configured further (the
                # automaton state is unchanged by an evaluation; what the object remembers from it must not matter)
                do_asserts(spec.get("asserts", [])[1:3])
                continue
            logged = {"m": m}
            if which == "rule" and "filters" in c:
                arg = _rule_arg(c)
                logged["filters"] = _norm_filters(c)
                fn = lambda: getattr(obj, m)(arg)
            elif which == "arch" and m == "layer":
                logged["name"] = c["name"]
                fn = lambda: obj.layer(c["name"])
            elif which == "arch" and m == "containing_modules":
                names = [dotted(n) for n in c["names"]]
                arg = names if c.get("list", True) or len(names) != 1 else names[0]
                logged["names"] = [list(n) for n in c["names"]]
                logged["list"] = isinstance(arg, list)
                fn = lambda: obj.containing_modules(arg)
            elif which == "arch" and m == "have_modules_with_names_matching":
                logged["regex"] = ["regex"]
                fn = lambda: obj.have_modules_with_names_matching(c.get("pat", r"r\.c.*"))
            elif which == "lrule" and m == "based_on":
                fn = lambda: obj.based_on(arch)
            elif which == "lrule" and m == "are_named":
                layers = list(c["layers"])
                arg = layers if c.get("list") or len(layers) != 1 else layers[0]
                logged.update({"layers": layers, "list": isinstance(arg, list), "defined": ["L1", "L2", "L3"]})
                fn = lambda: obj.are_named(arg)
            elif which == "diag" and m == "from_file":
                logged["file"] = c["file"]
                from pathlib import Path
                fn = lambda: obj.from_file(Path(os.path.join(tmpdir, c["file"] + ".puml")))
            elif which == "diag" and m == "with_base_module":
                fn = lambda: obj.with_base_module(c.get("base", "r"))
            else:
                fn = lambda: getattr(obj, m)()
            out, exc, _ = _call(fn)
            if exc:
                excs[exc] = excs.get(exc, 0) + 1
            events.append({"k": "call", "h": h, "c": logged, "out": out, "exc": exc})
            if which == "lrule":
                events.append({"k": "basis", "h": h, "layers": definition(arch)})
            if which == "arch" and spec.get("show", True):
                layers = []
                text = str(obj)
                for i, (name, mods) in enumerate(obj._modules_by_layer_name.items()):
                    items = [["regex"] if mf.identifier_is_regex else mf.identifier.split(".") for mf in obj[name]]
                    layers.append({"name": name, "items": items})
                # str() must show the same thing
                want = "Layered Architecture: " + "; ".join(
                    f"Layer {x['name']}: [{', '.join(mf.identifier for mf in obj[x['name']])}]" for x in layers)
                # ... and so must the third view of the definition, the LayerMapping that rules are evaluated with
                try:
                    lm = obj.layer_mapping
                    view = [[mf.identifier for mf in lm.get_module_filters(x["name"])] for x in layers]
                    mapping_ok = view == [[mf.identifier for mf in obj[x["name"]]] for x in layers]
                except Exception:  # noqa: BLE001
                    mapping_ok = False
                events.append({"k": "show", "h": h, "layers": layers, "str_consistent": text == want, "str": text,
                               "mapping_consistent": mapping_ok})
        do_asserts(spec.get("asserts", []))
    finally:
        if tmpdir:
            import shutil
            shutil.rmtree(tmpdir, ignore_errors=True)
    return events
