"""Abstract rule configurations -> real pytestarch.Rule objects through the public fluent API."""
from __future__ import annotations

from harness.msgparse import parse_message
from harness.names import dotted

VERBS = ("should", "should_only", "should_not")
DIRS = ("import", "imported")


def F(kind, name, matches=None, pat=None):
    d = {"kind": kind, "name": list(name) if not isinstance(name, str) else [name], "matches": [list(m) for m in (matches or [])]}
    if pat is not None:
        d["pat"] = pat
    return d


def mk_rule(verb, dir_, exc, subs, objs, any_=False):
    return {"verb": verb, "dir": dir_, "exc": bool(exc), "any": bool(any_), "subs": list(subs), "objs": list(objs)}


def _side(obj, filters, render, as_string_when_single=True):
    kinds = {f["kind"] for f in filters}
    assert len(kinds) == 1, "one fluent call sets one kind per side"
    kind = kinds.pop()
    if kind == "regex":
        assert len(filters) == 1
        return obj.have_name_matching(filters[0]["pat"])
    if kind == "partial":
        vals = [f["pat"] for f in filters]
        return obj.have_name_containing(vals[0] if len(vals) == 1 else vals)
    vals = [render(f["name"]) for f in filters]
    arg = vals[0] if (len(vals) == 1 and as_string_when_single) else vals
    return obj.are_named(arg) if kind == "named" else obj.are_sub_modules_of(arg)


def build(rule, render=dotted, as_string_when_single=True):
    from pytestarch import Rule

    r = Rule().modules_that()
    r = _side(r, rule["subs"], render, as_string_when_single)
    r = getattr(r, rule["verb"])()
    if rule["any"]:
        return r.import_anything() if rule["dir"] == "import" else r.be_imported_by_anything()
    if rule["dir"] == "import":
        r = r.import_modules_except_modules_that() if rule["exc"] else r.import_modules_that()
    else:
        r = r.be_imported_by_modules_except_modules_that() if rule["exc"] else r.be_imported_by_modules_that()
    return _side(r, rule["objs"], render, as_string_when_single)


def apply(rule_obj, ev, back=None, parser=parse_message):
    """-> observation dict: out in pass|fail|error, parsed message, raw message / exception class."""
    try:
        rule_obj.assert_applies(ev)
    except AssertionError as e:
        msg = e.args[0] if e.args and isinstance(e.args[0], str) else str(e)
        p = parser(msg, back)
        return {"out": "fail", "real": [x["imp"] for x in p["real"]], "miss": p["miss"], "bad": p["bad"],
                "raw": msg, "exc": "AssertionError", "lines": p}
    except Exception as e:  # configuration / lookup errors
        return {"out": "error", "real": [], "miss": [], "bad": [], "raw": f"{type(e).__name__}: {e}",
                "exc": type(e).__name__}
    return {"out": "pass", "real": [], "miss": [], "bad": [], "raw": "", "exc": ""}


def evaluate(rule, ev, render=dotted, back=None, as_string_when_single=True):
    try:
        obj = build(rule, render, as_string_when_single)
    except AssertionError:
        raise
    except Exception as e:
        return {"out": "error", "real": [], "miss": [], "bad": [], "raw": f"{type(e).__name__}: {e}",
                "exc": type(e).__name__}
    return apply(obj, ev, back)


def rule_space(filters_named, filters_sub, max_batch=1, with_any=True):
    """All rule shapes over the given filters: 3 verbs x 2 dirs x exc, one kind per side, batches up to max_batch."""
    import itertools

    def sides():
        for fs in (filters_named, filters_sub):
            for k in range(1, max_batch + 1):
                for combo in itertools.combinations(fs, k):
                    yield list(combo)

    all_sides = list(sides())
    for verb in VERBS:
        for d in DIRS:
            for exc in (False, True):
                for s in all_sides:
                    for o in all_sides:
                        yield mk_rule(verb, d, exc, s, o)
    if with_any:
        for d in DIRS:
            for s in all_sides:
                yield mk_rule("should_not", d, False, s, [], any_=True)


def real_filter(f, render=dotted):
    from pytestarch.eval_structure.evaluable_architecture import ModuleNameFilter, ParentModuleNameFilter

    return ModuleNameFilter(name=render(f["name"])) if f["kind"] == "named" else ParentModuleNameFilter(parent_module=render(f["name"]))
