"""Thin runner around TLC: model checking, simulation and trace validation.

All runs happen with cwd=/verif/spec, a private metadir in the scratch directory, under a timeout.
Printed lines of the form "TAG {json}" (PrintT of a string) are parsed back into Python values.
"""
from __future__ import annotations

import json
import os
import re
import shutil
import subprocess
import tempfile
import time
from dataclasses import dataclass, field

SPEC_DIR = os.path.join(os.path.dirname(os.path.dirname(os.path.abspath(__file__))), "spec")
JAR = "/opt/veriftools/tla/tla2tools.jar"
DEPS = "/opt/veriftools/tla/CommunityModules-deps.jar"


class MachineryError(Exception):
    """TLC failed for a reason that is not a verdict about the code (exit 2)."""


def scratch_root() -> str:
    base = "/dev/shm" if os.path.isdir("/dev/shm") and os.access("/dev/shm", os.W_OK) else tempfile.gettempdir()
    d = os.path.join(base, f"verif-{os.getpid()}")
    os.makedirs(d, exist_ok=True)
    return d


def cleanup_scratch() -> None:
    shutil.rmtree(scratch_root(), ignore_errors=True)


@dataclass
class TlcResult:
    rc: int
    out: str
    generated: int = 0
    distinct: int = 0
    depth: int = 0
    wall: float = 0.0
    violated: list = field(default_factory=list)   # names of violated invariants / properties
    printed: dict = field(default_factory=dict)    # TAG -> [values]
    errors: list = field(default_factory=list)
    coverage: dict = field(default_factory=dict)   # action -> (taken, distinct)

    @property
    def ok(self) -> bool:
        return self.rc == 0 and not self.violated and not self.errors


_PRINT_RE = re.compile(r'^"([A-Z]+) (.*)"$')


def _parse(out: str, res: TlcResult) -> None:
    for line in out.splitlines():
        if line.startswith('"') and line.endswith('"'):
            try:
                s = json.loads(line)
            except Exception:
                continue
            tag, _, body = s.partition(" ")
            if tag.isupper() and body:
                try:
                    res.printed.setdefault(tag, []).append(json.loads(body))
                except Exception:
                    res.printed.setdefault(tag, []).append(body)
            continue
        m = re.search(r"(\d[\d,]*) states generated, (\d[\d,]*) distinct states found", line)
        if m:
            res.generated = int(m.group(1).replace(",", ""))
            res.distinct = int(m.group(2).replace(",", ""))
        m = re.search(r"The depth of the complete state graph search is (\d+)", line)
        if m:
            res.depth = int(m.group(1))
        m = re.search(r"Invariant (\w+) is violated", line)
        if m:
            res.violated.append(m.group(1))
        m = re.search(r"Action property (\w+) is violated|Temporal properties were violated|property (\w+) is violated", line)
        if m:
            res.violated.append(m.group(1) or m.group(2) or "temporal")
        if line.startswith("Error:") and "violated" not in line:
            res.errors.append(line)
        m = re.match(r"<(\w+) line .*>: (\d+):(\d+)", line)
        if m:
            res.coverage[m.group(1)] = (int(m.group(3)), int(m.group(2)))


def run(module: str, cfg: str, workers: int = 1, env: dict | None = None, timeout: int = 3600,
        simulate: str | None = None, depth: int | None = None, seed: int | None = None,
        coverage: bool = False, dfs: bool = False, extra: tuple = ()) -> TlcResult:
    meta = tempfile.mkdtemp(prefix="tlc-", dir=scratch_root())
    # one collector thread per worker: many single-worker JVMs run side by side during trace validation
    # explicit heap bounds: up to 16 single-worker JVMs validate trace batches side by side, and the JVM's default
    # maximum (a quarter of the RAM each) let the kernel kill some of them in the thorough tier
    heap = os.environ.get("VERIF_TLC_HEAP") or ("3g" if workers == 1 else "12g")
    java = ["java", f"-Xmx{heap}", "-XX:+UseParallelGC", f"-XX:ParallelGCThreads={max(1, min(workers, 8))}", "-Xss16m",
            "-XX:TieredStopAtLevel=1", "-Xshare:auto"]
    if dfs:
        java.append("-Dtlc2.tool.queue.IStateQueue=StateDeque")
    cmd = java + ["-cp", f"{JAR}:{DEPS}", "tlc2.TLC", "-workers", str(workers), "-metadir", meta,
                  "-noGenerateSpecTE", "-config", cfg]
    if simulate:
        cmd += ["-simulate", simulate]
    if depth is not None:
        cmd += ["-depth", str(depth)]
    if seed is not None:
        cmd += ["-seed", str(seed)]
    if coverage:
        cmd += ["-coverage", "1"]
    cmd += list(extra) + [module]
    e = dict(os.environ)
    e.pop("JAVA_TOOL_OPTIONS", None)
    if env:
        e.update({k: str(v) for k, v in env.items()})
    t0 = time.time()
    try:
        p = subprocess.run(cmd, cwd=SPEC_DIR, env=e, stdout=subprocess.PIPE, stderr=subprocess.STDOUT,
                           text=True, timeout=timeout)
        rc, out = p.returncode, p.stdout
    except subprocess.TimeoutExpired as ex:
        rc, out = 124, (ex.stdout or b"").decode("utf-8", "replace") if isinstance(ex.stdout, bytes) else (ex.stdout or "")
        subprocess.run(["pkill", "-f", meta], check=False)
    finally:
        shutil.rmtree(meta, ignore_errors=True)
    res = TlcResult(rc=rc, out=out, wall=time.time() - t0)
    _parse(out, res)
    return res


def require_ok(res: TlcResult, what: str) -> TlcResult:
    if not res.ok:
        tail = "\n".join(res.out.splitlines()[-40:])
        raise MachineryError(f"{what}: TLC rc={res.rc} violated={res.violated} errors={res.errors[:3]}\n{tail}")
    return res


def write_cfg(text: str) -> str:
    fd, path = tempfile.mkstemp(suffix=".cfg", dir=scratch_root())
    with os.fdopen(fd, "w") as f:
        f.write(text)
    return path


def tlaps_prove(module: str, timeout: int = 1800) -> dict:
    """Run the TLA+ proof system on spec/<module> in a scratch copy (tlapm writes its cache next to the file).
    -> {"obligations": n, "proved": bool, "wall": s}; raises MachineryError when an obligation is left unproved."""
    import re as _re
    d = tempfile.mkdtemp(prefix="tlaps-", dir=scratch_root())
    shutil.copy(os.path.join(SPEC_DIR, module), d)
    t0 = time.time()
    try:
        p = subprocess.run(["tlapm", module], cwd=d, stdout=subprocess.PIPE, stderr=subprocess.STDOUT, text=True,
                           timeout=timeout)
        out = p.stdout
    except subprocess.TimeoutExpired as ex:
        raise MachineryError(f"tlapm timed out on {module}")
    finally:
        shutil.rmtree(d, ignore_errors=True)
    m = _re.search(r"All (\d+) obligations? proved", out)
    if not m:
        raise MachineryError(f"tlapm did not prove {module}:\n" + "\n".join(out.splitlines()[-25:]))
    return {"obligations": int(m.group(1)), "proved": True, "wall": round(time.time() - t0, 1)}


def require_actions_taken(res: TlcResult, actions, what: str) -> None:
    """Vacuity guard on a `-coverage 1` run: every named action must have been taken at least once."""
    missing = [a for a in actions if res.coverage.get(a, (0, 0))[0] == 0]
    if missing:
        raise MachineryError(f"{what}: action(s) never taken in the bounded model: {missing} (coverage {res.coverage})")
