"""python3-vt -m harness.validate : schema-validate MANIFEST.json and every evidence file (tooling venv has jsonschema)."""
import glob, json, sys
import jsonschema
ok = True
try:
    jsonschema.validate(json.load(open("/verif/MANIFEST.json")), json.load(open("/root/.vp/MANIFEST.schema.json")))
except Exception as e:
    ok = False; print("MANIFEST:", e)
sch = json.load(open("/root/.vp/EVIDENCE.schema.json"))
for p in sorted(glob.glob("/verif/evidence/*.json")):
    try:
        jsonschema.validate(json.load(open(p)), sch)
    except Exception as e:
        ok = False; print(p, str(e)[:300])
print("valid" if ok else "INVALID")
sys.exit(0 if ok else 1)
