"""Seeded random projects (Scan.tla's P) inside the documented input language (DESIGN section 5, guard 4):
identifiers as import-bearing names, no a.py next to a/, no dots in directory names, no symlinks."""
from __future__ import annotations

import random

from harness import project as pj

POOL = ["a", "ab", "a_b", "b", "ba", "c", "abc", "d", "aa", "core", "util", "utils", "m1", "m", "axpy", "apy",
        "r2", "rx", "r_core",          # these three start with the root directory's name "r"
        "r",                           # ... and a directory or file named exactly like the root directory (mysite/mysite)
        "_p", "test_a", "conftest", "Mod", "__main__", "setup"]
ODD = ["a+b", "c(d", "e-f", "g$", "h[1]", "i\\j"]   # legal file/dir names with regex metacharacters (and a backslash,
                                                      # an ordinary character of a POSIX file name); never imported
EXTERNALS = [["os"], ["os", "path"], ["xlib"], ["xlib", "sub"], ["xlib", "sub", "deep"], ["logging", "handlers"],
             ["ab"], ["a_b", "c"], ["rr", "x"], ["r2"], ["abx", "y"]]


def random_project(rng: random.Random, root="r", max_depth=4, n_dirs=None, n_files=None, odd=False, init=0.6,
                   externals=True, positions=True, n_stmts=None, rel_abs=False):
    dirs = [(root,)]
    n_dirs = n_dirs if n_dirs is not None else rng.randint(2, 8)
    tries = 0
    while len(dirs) < n_dirs + 1 and tries < 100:
        tries += 1
        p = rng.choice(dirs)
        if len(p) > max_depth:
            continue
        c = p + (rng.choice(POOL + (ODD if odd and rng.random() < 0.3 else [])),)
        if c not in dirs:
            dirs.append(c)
    files = []
    taken = set(dirs)
    n_files = n_files if n_files is not None else rng.randint(4, 18)
    for d in dirs:
        if rng.random() < init:
            files.append({"name": list(d) + ["__init__"], "py": True})
            taken.add(d + ("__init__",))
    tries = 0
    while len(files) < n_files and tries < 200:
        tries += 1
        d = rng.choice(dirs)
        stem = rng.choice(POOL + (ODD if odd and rng.random() < 0.3 else []))
        name = d + (stem,)
        if name in taken:
            continue
        taken.add(name)
        files.append({"name": list(name), "py": rng.random() < 0.9})
    pyfiles = [f["name"] for f in files if f["py"] and not any(ch in c for c in f["name"] for ch in "+($[-\\")]
    modules = [list(d) for d in dirs] + [f["name"] for f in files if f["py"]]
    importable = [m for m in modules if not any(ch in c for c in m for ch in "+($[-\\")]
    slots = pj.usable_slots()
    stmts = []
    # concrete layout per file: mostly one statement per line; some files have no import at the start of a line at
    # all (everything behind a semicolon / on the header line of its compound statement); some are mixed
    file_mode = {tuple(f): rng.choice(["line"] * 6 + ["unanchored", "mixed", "mixed"]) for f in pyfiles}
    rel_dirs = set()
    n_stmts = n_stmts if n_stmts is not None else rng.randint(0, 3 * max(1, len(pyfiles)))
    for _ in range(n_stmts if pyfiles else 0):
        f = rng.choice(pyfiles)
        pos = [rng.choice(slots) for _ in range(rng.choice([0, 0, 1, 1, 2, 3]))] if positions else []
        kind = rng.random()
        st = None
        if kind < 0.30:                                   # import a.b.c (internal, root-qualified)
            t = rng.choice(importable)
            st = {"form": "import", "level": 0, "module": list(t), "names": []}
        elif kind < 0.40 and externals:                   # import external
            st = {"form": "import", "level": 0, "module": list(rng.choice(EXTERNALS)), "names": []}
        elif kind < 0.62:                                 # from P import n  (n a sub module of P, or not a module)
            t = rng.choice(importable)
            if len(t) >= 2 and rng.random() < 0.7:
                names = [t[-1]] + ([rng.choice(["helper", "Thing"])] if rng.random() < 0.3 else [])
                st = {"form": "from", "level": 0, "module": list(t[:-1]), "names": names}
            else:
                st = {"form": "from", "level": 0, "module": list(t), "names": [rng.choice(["helper", "Thing", "*"])]}
        elif kind < 0.70 and externals:                   # from external import n
            t = rng.choice(EXTERNALS)
            st = {"form": "from", "level": 0, "module": list(t), "names": [rng.choice(["helper", "handlers"])]}
        else:                                             # relative: from .[P] import n
            level = rng.randint(1, max(1, len(f) - 1))
            base = f[:len(f) - level]
            below = [m for m in importable if m[:len(base)] == base and len(m) > len(base)]
            if below and rng.random() < 0.8:
                t = rng.choice(below)
                rest = t[len(base):]
                if rng.random() < 0.6:
                    st = {"form": "from", "level": level, "module": rest[:-1], "names": [rest[-1]]}
                else:
                    st = {"form": "from", "level": level, "module": rest, "names": [rng.choice(["helper", "*"])]}
            else:
                st = {"form": "from", "level": level, "module": [], "names": [rng.choice(["helper", "Thing"])]}
        if rel_abs and kind > 0.85:                        # absolute name written relative to a directory's parent
            cands = [d for d in dirs if len(d) >= 2 and any(m[:len(d)] == list(d) for m in importable)]
            if cands:
                d = rng.choice(cands)
                inside = [m for m in importable if m[:len(d)] == list(d)]
                srcs = [x for x in pyfiles if x[:len(d)] == list(d)]
                if srcs:
                    f = rng.choice(srcs)
                    t = rng.choice(inside)
                    rel = t[len(d) - 1:]
                    if len(rel) >= 2 and rng.random() < 0.5:
                        st = {"form": "from", "level": 0, "module": rel[:-1], "names": [rel[-1]]}
                    else:
                        st = {"form": "import", "level": 0, "module": rel, "names": []}
                    rel_dirs.add(tuple(d))
        if st is None:
            continue
        if "*" in st["names"]:
            pos = []                                       # 'import *' is only legal at module level
        mode = file_mode.get(tuple(f), "line")
        st["lay"] = ("line" if mode == "line" else rng.choice(["semicolon", "inline"]) if mode == "unanchored"
                     else rng.choice(list(pj.LAYOUTS)))
        st.update({"file": list(f), "pos": pos, "alias": rng.random() < 0.2,
                   "grp": (rng.randint(0, 2) if st["form"] == "import" and rng.random() < 0.4 else None)})
        stmts.append(st)
    return {"root": root, "dirs": [list(d) for d in dirs], "files": files, "stmts": stmts,
            "rel_dirs": [list(d) for d in sorted(rel_dirs)]}


def sub_dirs(project):
    return [d for d in project["dirs"]]


def depth(project):
    return max(len(f["name"]) for f in project["files"]) if project["files"] else 1


def add_link(project, rng):
    """The project plus one directory that is a SYMBOLIC LINK to another directory of the tree.  The scanner follows
    links, so a linked directory is a directory with the same content under another name: in the abstract project it
    is simply a copy (directories, files, statements with the importing file renamed); only the renderer makes it a
    link ("links": [[link, target]]).  Returns None when the tree has no directory that can be linked."""
    dirs = [tuple(d) for d in project["dirs"]]
    targets = [d for d in dirs if len(d) > 1 and not any(ch in c for c in d for ch in "+($[-\\")]
    if not targets:
        return None
    t = rng.choice(targets)
    parents = [d for d in dirs if d[:len(t)] != t]            # the link must not live inside its own target
    taken = set(dirs) | {tuple(f["name"]) for f in project["files"]}
    for _ in range(20):
        link = rng.choice(parents) + (rng.choice(["lnk", "legacy", t[-1] + "2", "a", "zz"]),)
        if link not in taken:
            break
    else:
        return None
    ren = lambda n: list(link) + list(n[len(t):])
    p = dict(project)
    p["dirs"] = project["dirs"] + [ren(d) for d in project["dirs"] if tuple(d[:len(t)]) == t]
    p["files"] = project["files"] + [dict(f, name=ren(f["name"])) for f in project["files"] if tuple(f["name"][:len(t)]) == t]
    p["stmts"] = project["stmts"] + [dict(s, file=ren(s["file"])) for s in project["stmts"] if tuple(s["file"][:len(t)]) == t]
    p["links"] = [[list(link), list(t)]]
    return p
