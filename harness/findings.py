"""Known findings: genuine defects of the code under test that were recorded instead of repaired.

/verif/known_findings.json is read-only at run time.  An 'open' entry names a property, the failing clause(s) and a
cause predicate (a named function below) that recognises the specific failing inputs; any failure of the same
property that the predicate does not recognise is still a VIOLATION.  'fixed' entries suppress nothing.
"""
from __future__ import annotations

import json
import os

from harness import names

PATH = os.path.join(os.path.dirname(os.path.dirname(os.path.abspath(__file__))), "known_findings.json")


def load():
    if not os.path.exists(PATH):
        return []
    with open(PATH) as f:
        return json.load(f)["findings"]


# ---- cause predicates: (fail dict, episode events) -> bool --------------------------------------------------
PREDICATES = {}


def predicate(fn):
    PREDICATES[fn.__name__] = fn
    return fn


def match(fail, episode, entries):
    for e in entries:
        if e.get("status") != "open" or e["property"] not in fail["prop"].split(","):
            continue
        if e.get("clauses") and fail["clause"] not in e["clauses"]:
            continue
        pred = PREDICATES.get(e["predicate"])
        if pred is not None and pred(fail, episode):
            return e
    return None
