"""Session episodes (Session.tla): one history of New / Apply / Grow over module rules, layer rules and diagram
rules, replayed on real objects.  All three families share the same real architectures; rule objects are built once
and re-applied; after every Apply the same configuration is also evaluated in isolation (fresh architecture, fresh
rule object) and the two outcomes are compared (C15: the outcome is a function of <<configuration, architecture>>).

spec: {"driver":"session","modules":[..],"layers":[{"name","kind":"names","listed":[..]}],
       "hist":[{"op":"new","obj","fam","cfg"}|{"op":"apply","obj","arch"}|{"op":"grow","arch","e"}]}
-> {"rules": [events], "layers": [events], "diagram": [events]}  (validated by the three trace specifications)
"""
from __future__ import annotations

import json

from harness import diagramdriver, labeldriver, layerdriver, ruledriver


def _cfg_id(fam, cfg):
    import hashlib
    return fam[0].upper() + hashlib.sha1(json.dumps(cfg, sort_keys=True).encode()).hexdigest()[:10]


def _rule_item(cfg):
    return {"verb": cfg["verb"], "dir": cfg["dir"], "exc": cfg["exc"], "any": cfg["any"],
            "subs": [{"kind": f["kind"], "name": f["name"], "matches": []} for f in cfg["subs"]],
            "objs": [{"kind": f["kind"], "name": f["name"], "matches": []} for f in cfg["objs"]]}


OUTCOME_FIELDS = ("out", "real", "miss", "bad", "raw")


def run_episode(spec, uid="E"):
    world0 = {"modules": spec["modules"], "imports": []}
    shared = {}
    fam_spec = {"rules": {"driver": "rules", "world": world0, "render": "ident", "items": []},
                "layers": {"driver": "layers", "world": world0, "render": "ident", "items": []},
                "diagram": {"driver": "diagram", "world": world0, "items": []},
                "labels": {"driver": "labels", "world": world0, "render": "ident", "items": []}}
    imports = {0: []}            # arch number (0-based) -> import list
    objs = {}
    plan = []                    # (family, item) in history order; grow goes to rules and layers
    for h in spec["hist"]:
        if h["op"] == "new":
            objs[h["obj"]] = (h["fam"], h["cfg"])
        elif h["op"] == "grow":
            a, a2 = h["arch"] - 1, len(imports)
            imports[a2] = imports[a] + [h["e"]]
            it = {"op": "addimport", "a": a, "a2": a2, "e": h["e"]}
            plan += [("rules", it), ("layers", it)]
        elif h["op"] == "viz":          # visualize(aliases=...) on a shared architecture; alias text = a fixed token per module
            a = h["arch"] - 1
            al = [{"mod": list(m), "text": "AL_" + "_".join(m).upper()} for m in sorted(h["aliased"])]
            plan.append(("rules", {"op": "touch", "a": a}))      # the rule driver owns (builds, grows) the architectures
            plan.append(("labels", {"op": "viz", "a": a, "rid": _cfg_id("viz", al), "aliases": al, "kw": {}, "spacing": None}))
        elif h["op"] == "query":        # one of the three graph questions on a shared architecture
            c = h["cfg"]
            fl = lambda fs: [{"kind": f["kind"], "name": f["name"], "matches": []} for f in sorted(fs, key=lambda f: (f["kind"], f["name"]))]
            plan.append(("rules", {"op": "query", "a": h["arch"] - 1, "q": c["q"], "dependents": fl(c["dep"]), "upons": fl(c["upon"])}))
        else:
            fam, cfg = objs[h["obj"]]
            a = h["arch"] - 1
            rid = _cfg_id(fam, cfg)
            if fam == "rule":
                plan.append(("rules", {"op": "eval", "a": a, "rid": rid, "rule": _rule_item(cfg), "obj": h["obj"], "keep": True}))
            elif fam == "layer":
                plan.append(("layers", {"op": "leval", "a": a, "rid": rid, "layers": spec["layers"], "obj": h["obj"],
                                        "rule": {"verb": cfg["verb"], "dir": cfg["dir"], "exc": cfg["exc"], "any": cfg["any"],
                                                 "sub": cfg["sub"], "objs": sorted(cfg["objs"])}}))
            else:
                plan.append(("diagram", {"op": "deval", "a": a, "rid": rid, "comps": cfg["comps"], "deps": cfg["deps"],
                                         "only": cfg["only"], "base": [], "obj": h["obj"]}))
    for fam, it in plan:
        fam_spec[fam]["items"].append(it)
    events = {"rules": [], "layers": [], "diagram": [], "labels": []}
    gens = {"rules": ruledriver.iter_episode(fam_spec["rules"], uid + "r", shared, events["rules"]),
            "layers": layerdriver.iter_episode(fam_spec["layers"], uid + "l", shared, events["layers"]),
            "diagram": diagramdriver.iter_episode(fam_spec["diagram"], uid + "d", shared, events["diagram"]),
            "labels": labeldriver.iter_episode(fam_spec["labels"], uid + "v", shared, events["labels"])}
    drivers = {"rules": ruledriver, "layers": layerdriver, "diagram": diagramdriver, "labels": labeldriver}
    # the diagram driver knows only world 0: give it the grown worlds through the shared architectures, which the
    # rule driver builds; so a grow is always stepped in the rule driver first (plan order guarantees it)
    for fam, it in plan:
        next(gens[fam])
        if it["op"] in ("eval", "leval", "deval", "viz"):
            ev = events[fam][-1]
            iso = dict(it)
            iso.pop("obj", None)
            iso["a"] = 0
            if it["op"] == "viz":      # the same call on a freshly built architecture with the same imports
                fresh = labeldriver.run_episode({**fam_spec[fam], "world": {"modules": spec["modules"],
                                                                            "imports": imports[it["a"]]},
                                                 "items": [{k: v for k, v in iso.items() if k != "a"}]}, uid + "f")[-1]
                ev["fresh_same"] = all(ev.get(k) == fresh.get(k) for k in ("out", "labels", "err_names", "drawn_nodes"))
                continue
            fresh = drivers[fam].run_episode({**fam_spec[fam], "world": {"modules": spec["modules"],
                                                                         "imports": imports[it["a"]]},
                                              "items": [iso], "share": False}, uid + "f")[-1]
            ev["fresh_same"] = all(ev.get(k) == fresh.get(k) for k in OUTCOME_FIELDS)
            if not ev["fresh_same"]:
                ev["fresh"] = {k: fresh.get(k) for k in OUTCOME_FIELDS}
    for g in gens.values():
        g.close()
    return events
