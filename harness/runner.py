"""Parallel execution of episode specs on the real code (one pool of worker processes)."""
from __future__ import annotations

import multiprocessing as mp
import os

_DRIVERS = {}


def _get_driver(name):
    if name not in _DRIVERS:
        import importlib

        _DRIVERS[name] = importlib.import_module({
            "rules": "harness.ruledriver",
            "builders": "harness.builderdriver",
            "layers": "harness.layerdriver",
            "diagram": "harness.diagramdriver",
            "scan": "harness.scandriver",
            "labels": "harness.labeldriver",
            "glob": "harness.globdriver",
        }[name])
    return _DRIVERS[name]


def _run_one(arg):
    i, spec = arg
    return _get_driver(spec["driver"]).run_episode(spec, uid=f"E{i}")


def run_specs(specs, procs=None):
    """-> list of episodes (lists of events), in the order of specs."""
    procs = procs or min(16, os.cpu_count() or 1)
    if len(specs) < 8 or procs == 1:
        return [_run_one(x) for x in enumerate(specs)]
    ctx = mp.get_context("fork")
    with ctx.Pool(procs) as pool:
        return pool.map(_run_one, list(enumerate(specs)), chunksize=max(1, len(specs) // (procs * 8)))
