"""Parallel execution of episode specs on the real code (one pool of worker processes)."""
from __future__ import annotations

import multiprocessing as mp
import os

_DRIVERS = {}


def _get_driver(name):
    if name not in _DRIVERS:
        import importlib

        _DRIVERS[name] = importlib.import_module({
            "rules": "harness.ruledriver",
            "builders": "harness.builderdriver",
            "layers": "harness.layerdriver",
            "diagram": "harness.diagramdriver",
            "scan": "harness.scandriver",
            "labels": "harness.labeldriver",
            "glob": "harness.globdriver",
            "session": "harness.sessiondriver",
            "graph": "harness.graphdriver",
        }[name])
    return _DRIVERS[name]


EPISODE_TIMEOUT_S = int(os.environ.get("VERIF_EPISODE_TIMEOUT", "300"))


class EpisodeTimeout(BaseException):
    pass


def _run_one(arg):
    """One episode on the real code, under a watchdog: an episode normally takes well under a second; one that
    does not return within EPISODE_TIMEOUT_S is cut off and recorded as a single 'timeout' event."""
    import signal

    i, spec = arg

    def on_alarm(signum, frame):
        raise EpisodeTimeout()

    old = signal.signal(signal.SIGALRM, on_alarm)
    signal.alarm(EPISODE_TIMEOUT_S)
    try:
        return _get_driver(spec["driver"]).run_episode(spec, uid=f"E{i}")
    except EpisodeTimeout:
        return [{"k": "timeout", "limit_s": EPISODE_TIMEOUT_S, "driver": spec["driver"]}]
    finally:
        signal.alarm(0)
        signal.signal(signal.SIGALRM, old)


def run_specs(specs, procs=None):
    """-> list of episodes (lists of events), in the order of specs."""
    procs = procs or min(16, os.cpu_count() or 1)
    if len(specs) < 8 or procs == 1:
        return [_run_one(x) for x in enumerate(specs)]
    ctx = mp.get_context("fork")
    with ctx.Pool(procs) as pool:
        return pool.map(_run_one, list(enumerate(specs)), chunksize=max(1, len(specs) // (procs * 8)))
