"""python -m harness.seedrun <specs.json> <out.json> : run episode specs in THIS interpreter (whose PYTHONHASHSEED the
caller chose) and write the recorded events.  Used by C15 to compare traces across hash seeds."""
import json
import sys

from harness import runner


def scrub(ev):
    """Drop what legitimately differs between processes (scratch paths inside exclusion subjects)."""
    if isinstance(ev, dict):
        return {k: scrub(v) for k, v in ev.items() if k not in ("chars",)}
    if isinstance(ev, list):
        return [scrub(x) for x in ev]
    return ev


def main():
    specs = json.load(open(sys.argv[1]))
    out = [scrub(ep) for ep in runner.run_specs(specs, procs=1)]
    json.dump(out, open(sys.argv[2], "w"))


if __name__ == "__main__":
    main()
