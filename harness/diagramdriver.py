"""PlantUML episodes: renders abstract diagrams (DiagramSem.tla) to text, runs the real parser / DiagramRule.

spec: {"driver":"diagram","world":{..}|None,
       "items":[{"op":"parse","lines":[abstract lines],"tags":bool,"pre":str,"post":str},
                {"op":"deval","a":0,"rid":..,"comps":[names],"deps":[[a,b]],"only":bool,"base":[..],"lines":[..]|None}]}
"""
from __future__ import annotations

import os
import re
import shutil
import tempfile
from pathlib import Path

from harness.msgparse import parse_message
from harness.names import dotted
from harness.world import World, build_real, observe

ARROW_TEXT = {"-->": "-->", "->": "->", "<--": "<--", "<-": "<-", "-t->": "-up->", "<-t-": "<-down-"}

# documented line forms, written from docs/features/plantuml.md (renderer self-check, not used for judging)
NAME = r"[A-Za-z_][A-Za-z_0-9]*(?:\.[A-Za-z_][A-Za-z_0-9]*)*"
_DOC_DECL = re.compile(rf"^(?:\[{NAME}\](?: as [A-Za-z_0-9]+)?|component {NAME}|component \[{NAME}\](?: as [A-Za-z_0-9]+)?)$")
_DOC_REF = rf"(?:\[{NAME}\]|{NAME})"
_DOC_ARROW = re.compile(rf"^{_DOC_REF} (?:-->|->|<--|<-|-[a-z]+->|<-[a-z]+-) {_DOC_REF}$")


class RenderError(Exception):
    pass


def alias_of(lines, comp):
    for x in lines:
        if x["t"] == "decl" and x["comp"] == comp and x.get("alias"):
            return x["alias"]
    return None


def render_line(x, lines):
    if x["t"] == "noise":
        return ""
    if x["t"] == "decl":
        n = dotted(x["comp"])
        al = f" as {x['alias']}" if x.get("alias") else ""
        text = {"brackets": f"[{n}]{al}", "component": f"component {n}", "component_brackets": f"component [{n}]{al}"}[x["form"]]
        if not _DOC_DECL.match(text):
            raise RenderError(text)
        return text

    def ref(r):
        if r["how"] == "bracket":
            return f"[{dotted(r['comp'])}]"
        if r["how"] == "bare":
            return dotted(r["comp"])
        a = alias_of(lines, r["comp"])
        if a is None:
            raise RenderError("alias reference without alias declaration")
        return a

    text = f"{ref(x['left'])} {ARROW_TEXT[x['form']]} {ref(x['right'])}"
    if not _DOC_ARROW.match(text):
        raise RenderError(text)
    return text


def tagform_of(tags):
    """tags: True / False (both / none) or one of DiagramSem!TagForms."""
    return {True: "both", False: "none"}.get(tags, tags)


def render(lines, tags=True, pre="", post=""):
    body = "\n".join(render_line(x, lines) for x in lines)
    tf = tagform_of(tags)
    if tf == "both":
        return f"{pre}@startuml\n{body}\n@enduml\n{post}"
    if tf == "start_only":
        return f"{pre}@startuml\n{body}\n{post}"
    if tf == "end_only":
        return f"{pre}{body}\n@enduml\n{post}"
    if tf == "reversed":
        return f"{pre}@enduml\n{body}\n@startuml\n{post}"
    if tf != "none":
        raise RenderError(f"tag form {tf}")
    return f"{pre}{body}\n{post}"


def canonical_lines(comps, deps):
    lines = [{"t": "decl", "comp": list(c), "form": "brackets", "alias": ""} for c in comps]
    for a, b in deps:
        lines.append({"t": "arrow", "left": {"how": "bracket", "comp": list(a)}, "right": {"how": "bracket", "comp": list(b)},
                      "form": "-->"})
    return lines


def run_episode(spec, uid="E"):
    events = []
    for _ in iter_episode(spec, uid, None, events):
        pass
    return events


def iter_episode(spec, uid="E", shared=None, events=None):
    from pytestarch import DiagramRule
    from pytestarch.diagram_extension.diagram_parser import PumlParser

    tmp = tempfile.mkdtemp(prefix="verif-puml-", dir="/dev/shm" if os.path.isdir("/dev/shm") else None)
    events = events if events is not None else []
    reals = shared if shared is not None else {}
    logged = set()
    dobjs, robjs = {}, {}
    shared_parser = PumlParser()
    try:
        world = World(spec["world"]["modules"], spec["world"]["imports"]) if spec.get("world") else None

        def real(a):
            k = (a, "ident")
            if k not in reals:
                reals[k] = (build_real(world), dotted, None)
            if k not in logged:
                logged.add(k)
                events.append({"k": "arch", "a": f"{uid}.A{a}", "first": not any(e["k"] == "arch" for e in events),
                               **observe(reals[k][0])})
            return reals[k][0]

        for n, it in enumerate(spec["items"]):
            # the file system is part of the session state: a few paths are rewritten over and over, so every parse
            # after the first few reads a path that held a different diagram before (a result must be a function
            # of the file's current content, not of what was parsed from that path earlier)
            path = os.path.join(tmp, f"d{n % spec.get('paths', 3)}.puml")
            if it["op"] == "parse":
                text = render(it["lines"], it.get("tags", True), it.get("pre", ""), it.get("post", ""))
                if it.get("crlf"):       # the same diagram saved with Windows line ends: the same diagram
                    text = text.replace("\n", "\r\n")
                with open(path, "w", newline="") as f:
                    f.write(text)
                try:
                    # one parser object serves every diagram of the episode (a parse must not depend on earlier ones)
                    parsed = (shared_parser if n % 4 else PumlParser()).parse(Path(path))
                    out = "ok"
                    comps = sorted(c.split(".") for c in parsed.all_modules)
                    deps = sorted([a.split("."), b.split(".")] for a, bs in parsed.dependencies.items() for b in bs)
                except AssertionError:
                    raise
                except Exception as e:
                    out, comps, deps = "error", [], []
                    exc = type(e).__name__
                events.append({"k": "parse", "lines": it["lines"], "tags": it.get("tags", True),
                               "tagform": tagform_of(it.get("tags", True)), "crlf": bool(it.get("crlf")), "out": out,
                               "components": comps, "deps": deps, "text": text.replace("\r", "")})
            elif it["op"] == "deval":
                if it.get("obj") is not None:
                    # a persistent DiagramRule object keeps reading ITS file: that file is written once and never
                    # reused for another diagram (the rotating paths above are for one-shot parses and rules)
                    path = os.path.join(tmp, f"obj-{it['obj']}.puml")
                ev = real(it["a"])
                lines = it.get("lines") or canonical_lines(it["comps"], it["deps"])
                if not (it.get("obj") is not None and it["obj"] in dobjs):
                    with open(path, "w") as f:
                        f.write(render(lines, True, it.get("pre", ""), it.get("post", "")))
                before = observe(ev)
                if it.get("robj") is not None:
                    # a RE-TARGETED DiagramRule object: built once from its own file (written once), then pointed at
                    # another base module with with_base_module(..) before each evaluation - 'one diagram checked
                    # against several sibling packages'.  The last with_base_module call is the one that counts.
                    if it["robj"] not in robjs:
                        rpath = os.path.join(tmp, f"robj-{it['robj']}.puml")
                        with open(rpath, "w") as f:
                            f.write(render(lines, True, it.get("pre", ""), it.get("post", "")))
                        robjs[it["robj"]] = DiagramRule(should_only_rule=it["only"]).from_file(Path(rpath))
                    rule = robjs[it["robj"]].with_base_module(dotted(it["base"]))
                elif it.get("obj") is not None and it["obj"] in dobjs:      # a persistent DiagramRule object, re-applied
                    rule = dobjs[it["obj"]]
                else:
                    rule = DiagramRule(should_only_rule=it["only"]).from_file(Path(path))
                    rule = rule.with_base_module(dotted(it["base"])) if it["base"] else rule.base_module_included_in_module_names()
                    if it.get("obj") is not None:
                        dobjs[it["obj"]] = rule
                o = {"out": "pass", "real": [], "miss": [], "bad": [], "raw": ""}
                try:
                    rule.assert_applies(ev)
                except AssertionError as e:
                    msg = e.args[0] if e.args and isinstance(e.args[0], str) else str(e)
                    p = parse_message(msg)
                    o = {"out": "fail", "real": [x["imp"] for x in p["real"]],
                         "miss": [{"other": m["other"], "sub": m["sub"], "objs": m["objs"]} for m in p["miss"]],
                         "bad": p["bad"], "raw": msg[:3000]}
                except Exception as e:
                    o = {"out": "error", "real": [], "miss": [], "bad": [], "raw": f"{type(e).__name__}: {e}"[:300]}
                events.append({"k": "deval", "a": f"{uid}.A{it['a']}", "rid": it.get("rid", f"D{n}"),
                               "comps": [list(c) for c in it["comps"]], "deps": [[list(a), list(b)] for a, b in it["deps"]],
                               "only": it["only"], "base": list(it["base"]), **o, "same": observe(ev) == before})
            yield events
    finally:
        shutil.rmtree(tmp, ignore_errors=True)
