"""'Wild' projects: real source trees found on this machine (the library itself, the repository's test resources,
standard-library and site-packages packages) abstracted into Scan.tla's project record, so that scans of REAL code are
validated by Trace_Scan exactly like scans of generated projects.

The abstraction is independent of pytestarch: directories and files come from os.walk, import statements from a
generic walk over ast.iter_fields (cross-checked against ast.walk).  A tree is copied into the scratch directory
before it is scanned; entries outside the documented input language (DESIGN section 5, guard 4) are left out of the
copy - they are not part of the project that is scanned, so nothing about them is claimed:
  * __pycache__ directories, symlinks, hidden entries
  * names that are not identifiers (dots or dashes in a directory or file stem)
  * a file a.py next to a directory a/ (the file is left out)
  * .py files that the interpreter cannot read or parse (pytestarch would raise on them), and files whose relative
    imports climb above the project root
Non-Python files are represented by small placeholder .txt files (they must not become modules).
"""
from __future__ import annotations

import ast
import os
import sys
import sysconfig

from harness import project as pj

SLOT_OF_CONTAINER = {"ExceptHandler": "handlers", "match_case": "cases"}


def extract(source):
    """All import statements of a source text as abstract statements with their position (slot path)."""
    tree = ast.parse(source)
    out = []
    text = source.splitlines()

    def layout(node):
        # Scan.tla 'lay' for real code: alone on its physical line(s), behind other text on its line, or multi-line
        if (node.end_lineno or node.lineno) > node.lineno:
            return "multiline"
        before = text[node.lineno - 1].encode()[:node.col_offset].decode(errors="replace") if node.lineno <= len(text) else ""
        return "line" if not before.strip() else "inline"

    def emit(node, pos):
        if isinstance(node, ast.Import):
            for i, a in enumerate(node.names):
                out.append({"form": "import", "level": 0, "module": a.name.split("."), "names": [], "pos": list(pos),
                            "lay": layout(node)})
        elif isinstance(node, ast.ImportFrom):
            out.append({"form": "from", "level": node.level, "module": node.module.split(".") if node.module else [],
                        "names": [a.name for a in node.names], "pos": list(pos), "lay": layout(node)})

    def visit(node, pos, owner=None):
        emit(node, pos)
        for field, value in ast.iter_fields(node):
            if isinstance(value, list):
                for v in value:
                    if not isinstance(v, ast.AST):
                        continue
                    if isinstance(v, (ast.excepthandler, ast.match_case)):
                        visit(v, pos + [f"{type(node).__name__}.{field}"], owner=node)
                    elif isinstance(v, ast.stmt) and not isinstance(node, (ast.Module, ast.excepthandler, ast.match_case)):
                        visit(v, pos + [f"{type(node).__name__}.{field}"])
                    else:
                        visit(v, pos)
            elif isinstance(value, ast.AST):
                visit(value, pos)

    visit(tree, [])
    n_walk = sum(len(n.names) if isinstance(n, ast.Import) else 1 for n in ast.walk(tree)
                 if isinstance(n, (ast.Import, ast.ImportFrom)))
    if n_walk != len(out):
        raise pj.RenderError("statement extraction disagrees with ast.walk")
    return out


def _ident(s):
    return s.isidentifier()


def abstract(src, root=None, max_files=None):
    """-> project dict (Scan.tla's P as data) with "wild": {"src", "copy": [[relative path, is_py], ...]}."""
    src = os.path.abspath(src)
    root = root or os.path.basename(src)
    if not _ident(root):
        raise pj.RenderError(f"root name {root!r} is not an identifier")
    dirs, files, stmts, copy = [[root]], [], [], []
    n_py = 0
    for dp, dns, fns in os.walk(src):
        rel = [] if dp == src else os.path.relpath(dp, src).split(os.sep)
        dns[:] = sorted(d for d in dns if _ident(d) and d != "__pycache__" and not os.path.islink(os.path.join(dp, d)))
        for d in dns:
            dirs.append([root] + rel + [d])
        taken = set(dns)
        for fn in sorted(fns):
            stem, ext = os.path.splitext(fn)
            p = os.path.join(dp, fn)
            if not _ident(stem) or stem in taken or os.path.islink(p) or not os.path.isfile(p):
                continue
            name = [root] + rel + [stem]
            if ext == ".py":
                if max_files is not None and n_py >= max_files:
                    continue
                try:
                    with open(p) as fh:
                        text = fh.read()
                    sts = extract(text)
                except Exception:  # noqa: BLE001  (unreadable / unparsable: pytestarch would raise on it)
                    continue
                if any(s["level"] >= len(name) for s in sts):
                    continue
                taken.add(stem)
                n_py += 1
                files.append({"name": name, "py": True})
                copy.append([os.path.join(*rel, fn) if rel else fn, True])
                for s in sts:
                    stmts.append({"file": name, **s})
            else:
                taken.add(stem)
                files.append({"name": name, "py": False})
                copy.append([os.path.join(*rel, fn) if rel else fn, False])
    return {"root": root, "dirs": dirs, "files": files, "stmts": stmts, "wild": {"src": src, "copy": copy}}


def materialise(project, base):
    """Copy the kept entries below base/<root>, re-list from disk and re-extract: must equal the abstract project."""
    src = project["wild"]["src"]
    root = project["root"]
    for d in sorted(project["dirs"], key=len):
        os.makedirs(pj.path_of(base, d), exist_ok=True)
    for rel, is_py in project["wild"]["copy"]:
        parts = rel.split(os.sep)
        stem = os.path.splitext(parts[-1])[0]
        name = [root] + parts[:-1] + [stem]
        if is_py:
            with open(os.path.join(src, rel)) as fh:
                text = fh.read()
            with open(pj.path_of(base, name, True), "w") as out:
                out.write(text)
        else:
            with open(pj.path_of(base, name, False), "w") as out:
                out.write("not python\nimport nothing.at.all\n")
    # re-list
    dirs, files, stmts = [], [], []
    for dp, dns, fns in os.walk(os.path.join(base, root)):
        rel = os.path.relpath(dp, base).split(os.sep)
        dirs.append(rel)
        for fn in sorted(fns):
            stem, ext = os.path.splitext(fn)
            files.append({"name": rel + [stem], "py": ext == ".py"})
            if ext == ".py":
                with open(os.path.join(dp, fn)) as fh:
                    for s in extract(fh.read()):
                        stmts.append({"file": rel + [stem], **s})
    key = lambda f: f["name"]
    skey = lambda s: (s["file"], s["form"], s["level"], s["module"], s["names"], s["pos"], s["lay"])
    want_stmts = [{k: s[k] for k in ("file", "form", "level", "module", "names", "pos", "lay")} for s in project["stmts"]]
    if (sorted(dirs) != sorted(project["dirs"]) or sorted(files, key=key) != sorted(project["files"], key=key)
            or sorted(stmts, key=skey) != sorted(want_stmts, key=skey)):
        raise pj.RenderError("copied tree differs from the abstracted project")
    return {"dirs": sorted(dirs), "files": sorted(files, key=key), "stmts": sorted(stmts, key=skey)}


# ------------------------------------------------------------------------------------------------ catalogue

def catalogue():
    """Real trees available offline on this machine: (label, directory, approximate size class)."""
    out = []
    repo = "/repo"
    for p, size in ((f"{repo}/src/pytestarch", "m"),):
        if os.path.isdir(p):
            out.append(("pytestarch", p, size))
    res = f"{repo}/tests/resources"
    if os.path.isdir(res):
        for d in sorted(os.listdir(res)):
            p = os.path.join(res, d)
            if os.path.isdir(p) and _ident(d) and any(f.endswith(".py") for _, _, fs in os.walk(p) for f in fs):
                out.append((f"resources/{d}", p, "s"))
    std = sysconfig.get_paths()["stdlib"]
    for name, size in (("json", "s"), ("logging", "s"), ("importlib", "m"), ("email", "m"), ("unittest", "m"),
                       ("concurrent", "s"), ("xml", "m"), ("asyncio", "l"), ("multiprocessing", "l"), ("urllib", "s"),
                       ("http", "s"), ("sqlite3", "s"), ("wsgiref", "s"), ("zoneinfo", "s"), ("tomllib", "s"),
                       ("collections", "s"), ("ctypes", "m"), ("curses", "s"), ("dbm", "s"), ("html", "s"),
                       ("re", "s"), ("venv", "s"), ("xmlrpc", "s"), ("encodings", "l")):
        p = os.path.join(std, name)
        if os.path.isdir(p):
            out.append((f"stdlib/{name}", p, size))
    site = sysconfig.get_paths()["purelib"]
    for name, size in (("pluggy", "s"), ("iniconfig", "s"), ("packaging", "m"), ("_pytest", "l"), ("networkx", "xl"),
                       ("hypothesis", "xl"), ("attr", "m"), ("sortedcontainers", "s"), ("pytest_timeout", "s")):
        p = os.path.join(site, name)
        if os.path.isdir(p):
            out.append((f"site/{name}", p, size))
    return out


def abstract_inplace(root_path):
    """The tree below root_path exactly as it is on disk (nothing left out, nothing copied) - for scans that somebody
    else makes of a real directory (the repository's own test-suite).  Non-Python files are irrelevant to the model and
    are not listed.  Raises RenderError for trees outside the input language."""
    root_path = os.path.abspath(str(root_path))
    root = os.path.basename(root_path)
    dirs, files, stmts = [[root]], [], []
    for dp, dns, fns in os.walk(root_path):
        rel = [] if dp == root_path else os.path.relpath(dp, root_path).split(os.sep)
        dns.sort()
        for d in dns:
            if "." in d or os.path.islink(os.path.join(dp, d)):
                raise pj.RenderError(f"directory name outside the input language: {d}")
            dirs.append([root] + rel + [d])
        for fn in sorted(fns):
            stem, ext = os.path.splitext(fn)
            if ext != ".py":
                continue
            if "." in stem or stem in dns:
                raise pj.RenderError(f"file name outside the input language: {fn}")
            name = [root] + rel + [stem]
            with open(os.path.join(dp, fn)) as fh:
                sts = extract(fh.read())
            if any(s["level"] >= len(name) for s in sts):
                raise pj.RenderError(f"relative import above the root in {fn}")
            files.append({"name": name, "py": True})
            stmts += [{"file": name, **s} for s in sts]
    return {"root": root, "dirs": dirs, "files": files, "stmts": stmts}
