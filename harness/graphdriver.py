"""Builds of the real NetworkxGraph from a module list and an import list, in several listing orders (Graph.tla).

spec: {"driver":"graph","mods":[names],"imps":[[importer, importee]],"keep":0|k+1,"orders":[seed,...]}
One `build` event per order: the graph's nodes, its hierarchy ('inherits') edges and its import edges.
"""
from __future__ import annotations

import random


def build(mods, imps, keep, seed):
    from pytestarch.eval_structure.networkxgraph import NetworkxGraph
    from pytestarch.eval_structure_generation.file_import.import_types import AbsoluteImport

    ms = [".".join(m) for m in mods]
    es = [(".".join(u), ".".join(v)) for u, v in imps]
    if seed is not None:
        rnd = random.Random(seed)
        rnd.shuffle(ms)
        rnd.shuffle(es)
    g = NetworkxGraph(ms, [AbsoluteImport(u, v) for u, v in es], None if keep == 0 else keep - 1)._graph
    conv = lambda s: s.split(".")
    return {"nodes": sorted(conv(n) for n in g.nodes),
            "hier": sorted([conv(u), conv(v)] for u, v, d in g.edges(data=True) if d.get("inherits")),
            "imports": sorted([conv(u), conv(v)] for u, v, d in g.edges(data=True) if not d.get("inherits"))}


def run_episode(spec, uid="E"):
    events = []
    for i, seed in enumerate(spec.get("orders", [None])):
        try:
            obs = build(spec["mods"], spec["imps"], spec["keep"], seed)
            out = "ok"
        except AssertionError:
            raise
        except Exception as e:  # noqa: BLE001
            obs, out = {"nodes": [], "hier": [], "imports": []}, f"error {type(e).__name__}: {e}"[:200]
        events.append({"k": "build", "first": i == 0, "mods": [list(m) for m in spec["mods"]],
                       "imps": [[list(u), list(v)] for u, v in spec["imps"]], "keep": spec["keep"], "order": -1 if seed is None else seed,
                       "out": out, **obs})
    return events
