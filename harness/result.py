from __future__ import annotations

from dataclasses import dataclass, field


@dataclass
class CheckResult:
    fails: list = field(default_factory=list)       # dicts: prop, clause, detail, event, spec, episode_events
    coverage: dict = field(default_factory=dict)
    level: str = "model_checking"
    assumptions: list = field(default_factory=list)


def attach(trace_result, specs, episodes):
    """Add the episode spec (abstract input, for replay) and the episode's events to each failure."""
    out = []
    for f in trace_result.fails:
        g = dict(f)
        g["spec"] = specs[f["episode"]]
        g["episode_events"] = episodes[f["episode"]]
        out.append(g)
    return out
