"""Parser for violation messages, written from the sentence forms of LANGUAGE_DEFINTION.md
(DESIGN.md appendix B), not from the message generator.  Anything else is returned as 'bad'."""
from __future__ import annotations

import re

Q = r'"([^"\n]*)"'
TAG = r'(?: \(layer ' + Q + r'\)| \(no layer\))'
_REAL = re.compile(rf'^{Q} (imports|is imported by) {Q}\.$')
_REAL_L = re.compile(rf'^{Q}({TAG}) (imports|is imported by) {Q}({TAG})\.$')
_OBJ = rf'(?:a sub module of )?{Q}'
_MISS = re.compile(
    rf'^(Sub modules of )?{Q} (does not import|do not import|is not imported by|are not imported by) '
    rf'(any module that is not )?((?:a sub module of )?"[^"\n]*"(?:, (?:a sub module of )?"[^"\n]*")*)\.$')
_MISS_L = re.compile(
    rf'^Layer {Q} (does not import|is not imported by) (any layer that is not )?(layer "[^"\n]*"(?:, layer "[^"\n]*")*)\.$')
_OBJ_ONE = re.compile(r'(a sub module of )?"([^"\n]*)"')
_LOBJ_ONE = re.compile(r'layer "([^"\n]*)"')


def parse_message(msg: str, back=None):
    """-> dict(real=[[importer, importee]], miss=[{other, sub{kind,name}, objs[{kind,name}], verb}], bad=[lines]).
    `back` maps a dotted string to a component list (inverse renaming); default: split on dots."""
    conv = (lambda s: s.split(".")) if back is None else back
    real, miss, bad = [], [], []
    for line in msg.split("\n"):
        m = _REAL.match(line)
        if m:
            x, verb, y = m.group(1), m.group(2), m.group(3)
            try:
                real.append({"imp": [conv(x), conv(y)] if verb == "imports" else [conv(y), conv(x)], "verb": verb})
            except KeyError:
                bad.append(line)
            continue
        m = _MISS.match(line)
        if m:
            subk, sname, verb, other, objs = m.group(1), m.group(2), m.group(3), m.group(4), m.group(5)
            try:
                olist = [{"kind": "sub" if om.group(1) else "named", "name": conv(om.group(2)), "matches": []}
                         for om in _OBJ_ONE.finditer(objs)]
                miss.append({"other": bool(other), "verb": verb,
                             "sub": {"kind": "sub" if subk else "named", "name": conv(sname), "matches": []},
                             "objs": olist})
            except KeyError:
                bad.append(line)
            continue
        bad.append(line)
    return {"real": real, "miss": miss, "bad": bad}


def parse_layer_message(msg: str, back=None):
    """Layer-rule messages: realised lines carry a layer tag, missing lines speak about layers."""
    conv = (lambda s: s.split(".")) if back is None else back
    real, miss, bad = [], [], []
    for line in msg.split("\n"):
        m = _REAL_L.match(line)
        if m:
            x, xtag, xl, verb, y, ytag, yl = m.groups()
            try:
                pair = [conv(x), conv(y)] if verb == "imports" else [conv(y), conv(x)]
                tags = [xl, yl] if verb == "imports" else [yl, xl]   # None = "(no layer)"
                real.append({"imp": pair, "tags": [t if t is not None else "" for t in tags],
                             "notag": [xtag.strip() == "(no layer)", ytag.strip() == "(no layer)"] if verb == "imports"
                             else [ytag.strip() == "(no layer)", xtag.strip() == "(no layer)"], "verb": verb})
            except KeyError:
                bad.append(line)
            continue
        m = _MISS_L.match(line)
        if m:
            sub, verb, other, objs = m.groups()
            miss.append({"other": bool(other), "verb": verb, "sub": sub,
                         "objs": [om.group(1) for om in _LOBJ_ONE.finditer(objs)]})
            continue
        bad.append(line)
    return {"real": real, "miss": miss, "bad": bad}
