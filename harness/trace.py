"""Trace validation: events recorded from the real code -> ndjson -> TLC on a Trace_*.tla specification."""
from __future__ import annotations

import json
import os
import tempfile
import time
from concurrent.futures import ThreadPoolExecutor
from dataclasses import dataclass, field

from harness import tlc


@dataclass
class TraceResult:
    events: int = 0
    episodes: int = 0
    states: int = 0
    transitions: int = 0
    wall: float = 0.0
    fails: list = field(default_factory=list)   # dicts: prop, clause, detail, episode(index), event


def _weight(ep):
    size = 10
    for ev in ep[:3]:
        size += len(ev.get("modules", ())) + len(ev.get("imports", ()))
    return len(ep) * size


def _chunks(episodes, n_batches):
    """Greedy balancing (largest first) of episodes over batches; weight ~ events x architecture size."""
    order = sorted(range(len(episodes)), key=lambda i: -_weight(episodes[i]))
    bins = [[0, []] for _ in range(max(1, n_batches))]
    for i in order:
        b = min(bins, key=lambda x: x[0])
        b[0] += _weight(episodes[i])
        b[1].append(i)
    return [sorted(b[1]) for b in bins if b[1]]


def validate(episodes, module="Trace_Rules.tla", cfg="Trace_Rules.cfg", procs=16, max_events_per_batch=4000,
             timeout=1800, dfs=False) -> TraceResult:
    """Validate episodes (lists of event dicts).  Episode boundaries are never split across JVMs."""
    t0 = time.time()
    # episodes cut off by the runner's watchdog are not traces; they are reported as such (the real code did not
    # return from a call within the limit) and the remaining episodes are validated
    timed_out = [i for i, e in enumerate(episodes) if len(e) == 1 and e[0].get("k") == "timeout"]
    if timed_out:
        keep = [i for i in range(len(episodes)) if i not in set(timed_out)]
        sub = validate([episodes[i] for i in keep], module, cfg, procs, max_events_per_batch, timeout, dfs)
        for f in sub.fails:
            f["episode"] = keep[f["episode"]]
        for i in timed_out:
            sub.fails.append({"prop": "TIMEOUT", "clause": "call-did-not-return", "detail": episodes[i][0],
                              "episode": i, "event": episodes[i][0]})
        sub.episodes = len(episodes)
        return sub
    total = sum(len(e) for e in episodes)
    n_batches = max(1, min(len(episodes), max(procs if total > 400 else 1, -(-total // max_events_per_batch))))
    batches = _chunks(episodes, n_batches)
    res = TraceResult(events=total, episodes=len(episodes))
    root = tlc.scratch_root()

    def one(batch):
        fd, path = tempfile.mkstemp(suffix=".ndjson", dir=root)
        index = []   # line (1-based) -> (episode index, event)
        with os.fdopen(fd, "w") as f:
            for ei in batch:
                for ev in episodes[ei]:
                    f.write(json.dumps(ev, separators=(",", ":")) + "\n")
                    index.append((ei, ev))
        try:
            r = tlc.run(module, cfg, workers=1, env={"TRACE_FILE": path}, timeout=timeout, dfs=dfs)
        finally:
            try:
                os.unlink(path)
            except OSError:
                pass
        return r, index

    with ThreadPoolExecutor(max_workers=procs) as ex:
        outs = list(ex.map(one, batches))
    for r, index in outs:
        if r.rc != 0 or r.errors or r.violated:
            tail = "\n".join(r.out.splitlines()[-30:])
            raise tlc.MachineryError(f"trace validation with {module} did not run to completion "
                                     f"(rc={r.rc}, violated={r.violated}, errors={r.errors[:2]}):\n{tail}")
        res.states += r.distinct
        res.transitions += r.generated
        for f in r.printed.get("FAIL", []):
            ei, ev = index[f["line"] - 1]
            res.fails.append({"prop": f["prop"], "clause": f["clause"], "detail": f.get("detail"),
                              "episode": ei, "event": ev})
    res.wall = time.time() - t0
    return res
