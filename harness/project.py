"""Abstract projects (Scan.tla) -> real directory trees with Python source, and back.

A project is pure data:
  {"root": "r", "dirs": [["r"], ["r","a"], ...], "files": [{"name": ["r","a","f"], "py": true}, ...],
   "stmts": [{"file": [...], "form": "import"|"from", "level": 0, "module": [...], "names": [...],
              "pos": ["If.orelse", "FunctionDef.body"], "alias": false, "grp": 0}, ...]}

Renderer self-checks (a renderer bug must never look like a defect of the code under test):
  * the statement-list slots are enumerated from the running interpreter's own grammar (ast.<Class>.__doc__) and the
    template table must cover exactly those;
  * every rendered file is re-parsed with ast and all Import / ImportFrom nodes recovered with ast.walk (independent
    of pytestarch's own traversal) must be exactly the intended statements;
  * the tree is re-listed with os.walk and must be exactly the intended directories and files.
"""
from __future__ import annotations

import ast
import os
import re

# ------------------------------------------------------------------------------------------------ slots

def grammar_slots():
    """Every (AST class, field) that holds a list of statements, straight from the ASDL signatures in the docstrings
    of the running interpreter's ast classes.  handlers / cases lead to ExceptHandler.body / match_case.body."""
    slots = []
    for name in sorted(dir(ast)):
        cls = getattr(ast, name)
        if not (isinstance(cls, type) and issubclass(cls, ast.AST)) or not cls.__doc__:
            continue
        if name in ("Module", "Interactive", "Expression", "FunctionType", "Suite", "ExceptHandler", "match_case"):
            continue
        m = re.match(rf"{name}\((.*)\)", cls.__doc__.replace("\n", " "))
        if not m:
            continue
        for part in m.group(1).split(","):
            part = part.strip()
            mm = re.match(r"(stmt|excepthandler|match_case)\*\s+(\w+)", part)
            if mm:
                slots.append(f"{name}.{mm.group(2)}")
    return slots


PASS = "pass"
# slot -> (header lines before the body, indentation the body gets, lines after the body)
TEMPLATES = {
    "FunctionDef.body": (["def f_():"], 1, []),
    "AsyncFunctionDef.body": (["async def f_():"], 1, []),
    "ClassDef.body": (["class C_:"], 1, []),
    "For.body": (["for i_ in ():"], 1, []),
    "For.orelse": (["for i_ in ():", "    pass", "else:"], 1, []),
    "AsyncFor.body": (["async for i_ in x_:"], 1, []),
    "AsyncFor.orelse": (["async for i_ in x_:", "    pass", "else:"], 1, []),
    "While.body": (["while x_:"], 1, []),
    "While.orelse": (["while x_:", "    pass", "else:"], 1, []),
    "If.body": (["if x_:"], 1, []),
    "If.orelse": (["if x_:", "    pass", "else:"], 1, []),
    "With.body": (["with x_:"], 1, []),
    "AsyncWith.body": (["async with x_:"], 1, []),
    "Try.body": (["try:"], 1, ["except Exception:", "    pass"]),
    "Try.handlers": (["try:", "    pass", "except Exception:"], 1, []),
    "Try.orelse": (["try:", "    pass", "except Exception:", "    pass", "else:"], 1, []),
    "Try.finalbody": (["try:", "    pass", "finally:"], 1, []),
    "TryStar.body": (["try:"], 1, ["except* Exception:", "    pass"]),
    "TryStar.handlers": (["try:", "    pass", "except* Exception:"], 1, []),
    "TryStar.orelse": (["try:", "    pass", "except* Exception:", "    pass", "else:"], 1, []),
    "TryStar.finalbody": (["try:", "    pass", "finally:"], 1, []),
    "Match.cases": (["match x_:", "    case _:"], 2, []),
}


class RenderError(Exception):
    pass


def check_templates():
    slots = grammar_slots()
    missing = [s for s in slots if s not in TEMPLATES]
    if missing:
        raise RenderError(f"no source template for statement-list slots {missing}")
    return slots


def usable_slots():
    """Slots of the running grammar that also have a template (TryStar only from 3.11, Match from 3.10)."""
    return [s for s in check_templates()]


LAYOUTS = ("line", "semicolon", "inline", "paren", "backslash")


def import_line(st, lay="line"):
    """Source text of one import statement (a list of physical lines when the layout spreads it over several)."""
    if st["form"] == "import":
        tgt = ".".join(st["module"])
        text = f"import {tgt}" + (f" as al_{len(tgt)}" if st.get("alias") else "")
        return text.replace("import ", "import \\\n    ", 1) if lay == "backslash" else text
    mod = "." * st["level"] + ".".join(st["module"])
    parts = [n + (f" as al_{i}" if st.get("alias") and n != "*" else "") for i, n in enumerate(st["names"])]
    if lay == "paren" and "*" not in st["names"]:
        return f"from {mod} import (\n    " + ",\n    ".join(parts) + ",\n)"
    if lay == "backslash":
        return f"from {mod} \\\n    import " + ", ".join(parts)
    return f"from {mod} import " + ", ".join(parts)


def effective_layout(st):
    """The layout a statement is really rendered with (a layout that does not apply falls back to 'line')."""
    lay = st.get("lay") or "line"
    if st["form"] == "import" and st.get("grp") is not None and lay in ("paren", "backslash"):
        return "line"
    if lay == "inline" and not st["pos"]:
        return "semicolon"
    if lay == "paren" and (st["form"] != "from" or "*" in st["names"]):
        return "line"
    return lay


def wrap(lines, pos, inline=False):
    """Nest `lines` into the slots of pos (outermost first).  inline: the statement stands on the header line of
    the innermost compound statement ('if x_: import a')."""
    for n, slot in enumerate(reversed(pos)):
        head, ind, tail = TEMPLATES[slot]
        if n == 0 and inline:
            lines = head[:-1] + [head[-1] + " " + lines[0]] + ["    " * ind + x for x in lines[1:]] + tail
        else:
            lines = head + ["    " * ind + x for x in lines] + tail
    return lines


def render_file(stmts):
    """Source text of one file.  'import' statements sharing a grp (and position) are written as one multi-name
    import statement."""
    blocks, seen = [], set()
    for i, st in enumerate(stmts):
        if i in seen:
            continue
        if st["form"] == "import" and st.get("grp") is not None:
            same = [j for j, t in enumerate(stmts) if t["form"] == "import" and t.get("grp") == st["grp"]
                    and t["pos"] == st["pos"] and j not in seen]
            seen.update(same)
            line = "import " + ", ".join(import_line(stmts[j])[len("import "):] for j in same)
            lay = effective_layout(st) if effective_layout(st) in ("semicolon", "inline") else "line"
        else:
            seen.add(i)
            lay = effective_layout(st)
            line = import_line(st, lay)
        if lay == "semicolon":
            line = "y_ = 1; " + line
        blocks.append("\n".join(wrap(line.split("\n"), st["pos"], inline=(lay == "inline"))))
    return "x_ = None\n" + "\n".join(blocks) + ("\n" if blocks else "")


def recover(source):
    """All import statements of a source text, as abstract statements (without pos), via ast.walk."""
    out = []
    for node in ast.walk(ast.parse(source)):
        if isinstance(node, ast.Import):
            for a in node.names:
                out.append(("import", 0, tuple(a.name.split(".")), ()))
        elif isinstance(node, ast.ImportFrom):
            out.append(("from", node.level, tuple(node.module.split(".")) if node.module else (),
                        tuple(a.name for a in node.names)))
    return sorted(out)


def intended(stmts):
    return sorted((s["form"], s["level"], tuple(s["module"]), tuple(s["names"]) if s["form"] == "from" else ())
                  for s in stmts)


# ------------------------------------------------------------------------------------------------ materialise

def path_of(base, name, py=None):
    p = os.path.join(base, *name)
    return p + (".py" if py else (".txt" if py is False else ""))


def materialise(project, base):
    """Write the project below `base` (base/<root>/...), self-check, return the project as re-listed from disk."""
    check_templates()
    links = [(list(l), list(t)) for l, t in project.get("links", [])]
    under_link = lambda name: any(list(name[:len(l)]) == l for l, _ in links)
    for d in sorted(project["dirs"], key=len):
        if not under_link(d):
            os.makedirs(path_of(base, d), exist_ok=True)
    by_file = {}
    for st in project["stmts"]:
        by_file.setdefault(tuple(st["file"]), []).append(st)
    for f in project["files"]:
        if under_link(f["name"]):
            continue                    # reached through the symbolic link, written once below its target
        stmts = by_file.get(tuple(f["name"]), []) if f["py"] else []
        text = render_file(stmts) if f["py"] else "not python\nimport nothing.at.all\n"
        if f["py"] and recover(text) != intended(stmts):
            raise RenderError(f"rendered source of {f['name']} does not contain exactly the intended imports:\n{text}")
        with open(path_of(base, f["name"], f["py"]), "w") as fh:
            fh.write(text)
    for l, t in links:
        os.symlink(path_of(base, t), path_of(base, l), target_is_directory=True)
        # a link is a copy: the files below it must carry the same statements as the files below its target
        for f in project["files"]:
            if list(f["name"][:len(l)]) == l and f["py"]:
                twin = tuple(t + list(f["name"][len(l):]))
                if intended(by_file.get(tuple(f["name"]), [])) != intended(by_file.get(twin, [])):
                    raise RenderError("statements below a link differ from those below its target")
    return relist(project, base)


def relist(project, base):
    """The project as found on disk (os.walk + ast.walk); must equal the abstract project."""
    root = project["root"]
    dirs, files, stmts = [], [], []
    for dp, dns, fns in os.walk(os.path.join(base, root), followlinks=bool(project.get("links"))):
        rel = os.path.relpath(dp, base).split(os.sep)
        dirs.append(rel)
        for fn in fns:
            stem, ext = os.path.splitext(fn)
            files.append({"name": rel + [stem], "py": ext == ".py"})
    want_dirs = sorted(list(d) for d in project["dirs"])
    want_files = sorted(({"name": list(f["name"]), "py": bool(f["py"])} for f in project["files"]), key=lambda f: f["name"])
    if sorted(dirs) != want_dirs or sorted(files, key=lambda f: f["name"]) != want_files:
        raise RenderError("tree on disk differs from the abstract project")
    return {"dirs": want_dirs, "files": want_files,
            "stmts": [{"file": list(s["file"]), "form": s["form"], "level": s["level"], "module": list(s["module"]),
                       "names": list(s["names"]) if s["form"] == "from" else [], "pos": list(s["pos"]),
                       "lay": effective_layout(s)}
                      for s in project["stmts"]]}
