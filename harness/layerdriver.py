"""Layer-rule episodes on the real code.

spec: {"driver":"layers","world":{..},"render":"ident|clean|adv",
       "items":[{"op":"leval","a":0,"rid":"R1","layers":[{"name","kind":"names"|"regex","listed":[names]}],
                 "rule":{"verb","dir","exc","any","sub","objs":[..]}, "objs_as_list":bool, "keep":bool},
                {"op":"addimport","a":0,"a2":1,"e":[u,v]}, {"op":"law","law":..,"as":[..],"rids":[..]}]}
"""
from __future__ import annotations

import re

from harness import names
from harness.msgparse import parse_layer_message
from harness.ruledriver import _renderer
from harness.world import World, build_real, observe

ACCESS = {("import", False, False): "access_layers_that", ("imported", False, False): "be_accessed_by_layers_that",
          ("import", True, False): "access_layers_except_layers_that",
          ("imported", True, False): "be_accessed_by_layers_except_layers_that"}


def define(layers, render, grow=False):
    from pytestarch import LayeredArchitecture, LayerRule

    arch = LayeredArchitecture()
    for i, lay in enumerate(layers):
        if grow and i == 1:
            # a first rule is created from the architecture while it has only its first layer; the layers added
            # afterwards belong to the architecture every later rule is based on
            LayerRule().based_on(arch).layers_that().are_named(layers[0]["name"]).should_not().access_any_layer()
        d = arch.layer(lay["name"])
        rendered = [render(m) for m in lay["listed"]]
        if lay["kind"] == "regex":
            pat = lay.get("pat") or "(" + "|".join(re.escape(x) for x in rendered) + ")$"
            d.have_modules_with_names_matching(pat)
        else:
            d.containing_modules(rendered if (len(rendered) != 1 or lay.get("as_list", True)) else rendered[0])
    return arch


def build_rule(arch, rule, objs_as_list=True):
    from pytestarch import LayerRule

    r = LayerRule().based_on(arch).layers_that().are_named(rule["sub"])
    r = getattr(r, rule["verb"])()
    if rule["any"]:
        return r.access_any_layer() if rule["dir"] == "import" else r.be_accessed_by_any_layer()
    r = getattr(r, ACCESS[(rule["dir"], rule["exc"], False)])()
    objs = list(rule["objs"])
    return r.are_named(objs if (objs_as_list or len(objs) != 1) else objs[0])


def run_episode(spec, uid="E"):
    events = []
    for _ in iter_episode(spec, uid, None, events):
        pass
    return events


def iter_episode(spec, uid="E", shared=None, events=None):
    default_kind = spec.get("render", "ident")
    worlds = {0: World(spec["world"]["modules"], spec["world"]["imports"])}
    reals = shared if shared is not None else {}
    events = events if events is not None else []
    logged = set()

    def key(a):
        return (a[0], a[1]) if isinstance(a, (list, tuple)) else (a, default_kind)

    def aid(a):
        n, kind = key(a)
        return f"{uid}.A{n}" if kind == default_kind else f"{uid}.A{n}{kind}"

    def real(a):
        k = key(a)
        if k not in reals:
            render, back = _renderer(k[1])
            reals[k] = (build_real(worlds[k[0]], render), render, back)
        if k not in logged:
            logged.add(k)
            events.append({"k": "arch", "a": aid(a), "first": not events, **observe(reals[k][0], reals[k][2])})
        return reals[k]

    referenced = {(key(a), rid) for it in spec["items"] if it["op"] == "law" for a, rid in zip(it["as"], it["rids"])}
    # One LayeredArchitecture object per distinct definition and rendering is shared by all rules of the episode
    # (what users do: define the layers once, write many rules against them) unless the spec says "share": false.
    shared = {}
    lobjs = {}
    import json as _json
    for it in spec["items"]:
        op = it["op"]
        if op == "leval":
            ev, render, back = real(it["a"])
            w = worlds.get(key(it["a"])[0])
            before = observe(ev, back)
            layers_logged = []
            for lay in it["layers"]:
                listed = [list(m) for m in lay["listed"]]
                if lay["kind"] == "regex":
                    rendered = [render(m) for m in lay["listed"]]
                    pat = lay.get("pat") or "(" + "|".join(re.escape(x) for x in rendered) + ")$"
                    listed = [list(m) for m in w.modules if re.match(pat, render(m))]
                layers_logged.append({"name": lay["name"], "kind": lay["kind"], "listed": listed})
            out = {"out": "pass", "real": [], "miss": [], "bad": [], "raw": ""}
            def_before = def_after = None
            try:
                dkey = (_json.dumps(it["layers"], sort_keys=True), key(it["a"])[1])
                if spec.get("share", True) and dkey in shared:
                    arch = shared[dkey]
                else:
                    arch = shared[dkey] = define(it["layers"], render, grow=bool(spec.get("grow")))
                def_before = str(arch)
                try:
                    if it.get("obj") is not None:          # a persistent LayerRule object, re-applied
                        if it["obj"] not in lobjs:
                            lobjs[it["obj"]] = build_rule(arch, it["rule"], it.get("objs_as_list", True))
                        rule = lobjs[it["obj"]]
                    else:
                        rule = build_rule(arch, it["rule"], it.get("objs_as_list", True))
                    rule.assert_applies(ev)
                finally:
                    def_after = str(arch)
                    if def_after != def_before:     # reported below; later rules get a fresh definition
                        shared.pop(dkey, None)
            except AssertionError as e:
                msg = e.args[0] if e.args and isinstance(e.args[0], str) else str(e)
                p = parse_layer_message(msg, back)
                out = {"out": "fail", "real": [{"imp": x["imp"], "tags": x["tags"]} for x in p["real"]],
                       "miss": [{"other": m["other"], "sub": m["sub"], "objs": m["objs"]} for m in p["miss"]],
                       "bad": p["bad"], "raw": msg[:2000]}
            except Exception as e:
                out = {"out": "error", "real": [], "miss": [], "bad": [], "raw": f"{type(e).__name__}: {e}"[:500]}
            events.append({"k": "leval", "a": aid(it["a"]), "rid": it["rid"], "layers": layers_logged,
                           "rule": it["rule"], **out, "same": observe(ev, back) == before,
                           "def_same": def_before == def_after,
                           "keep": (key(it["a"]), it["rid"]) in referenced})
        elif op == "world":
            # another architecture of the same session: a different module tree / import relation under number a
            worlds[key(it["a"])[0]] = World(it["world"]["modules"], it["world"]["imports"])
        elif op == "addimport":
            _, render, back = real(it["a"])
            e = (tuple(it["e"][0]), tuple(it["e"][1]))
            n2, kind2 = key(it["a2"])
            worlds[n2] = worlds[key(it["a"])[0]].with_import(e)
            if (n2, kind2) not in reals:
                reals[(n2, kind2)] = (build_real(worlds[n2], render), render, back)
            logged.add((n2, kind2))
            events.append({"k": "arch", "a": aid(it["a2"]), "first": False, **observe(reals[(n2, kind2)][0], back)})
        elif op == "law":
            events.append({"k": "law", "law": it["law"], "as": [aid(a) for a in it["as"]], "rids": it["rids"]})
        yield events
