"""Abstract architectures (module tree + import relation) and their realisation as real pytestarch objects."""
from __future__ import annotations

import random

from harness.names import anc, dotted, parents


class World:
    def __init__(self, modules, imports):
        self.modules = sorted({tuple(m) for m in modules})
        self.imports = sorted({(tuple(u), tuple(v)) for u, v in imports})

    def json(self):
        return {"modules": [list(m) for m in self.modules],
                "imports": [[list(u), list(v)] for u, v in self.imports]}

    def with_import(self, e):
        return World(self.modules, self.imports + [e])

    def leaves(self):
        return [m for m in self.modules if not any(anc(m, n) and n != m for n in self.modules)]


def build_real(world: World, render=dotted, level_limit=None, order_seed=None):
    """The real evaluable for an abstract world, built the way the repository's own tests build graphs."""
    from pytestarch.eval_structure.evaluable_graph import EvaluableArchitectureGraph
    from pytestarch.eval_structure.networkxgraph import NetworkxGraph
    from pytestarch.eval_structure_generation.file_import.import_types import AbsoluteImport

    mods = [render(m) for m in world.modules]
    if order_seed is not None:
        # another listing of the same tree: shuffled, and packages that have sub modules left implicit (the graph
        # creates parents of listed modules itself) - the architecture must be the same
        rnd = random.Random(order_seed)
        inner = {tuple(m[:i]) for m in world.modules for i in range(1, len(m))}
        mods = [render(m) for m in world.modules if tuple(m) not in inner or rnd.random() < 0.5]
        rnd.shuffle(mods)
    imps = [AbsoluteImport(render(u), render(v)) for u, v in world.imports]
    return EvaluableArchitectureGraph(NetworkxGraph(mods, imps, level_limit))


def observe(ev, back=None):
    """Project a real evaluable back to the abstract level: (modules, imports) as component lists."""
    g = ev._graph._graph  # networkx DiGraph; read-only observation from outside
    conv = (lambda s: s.split(".")) if back is None else back
    modules = sorted(conv(n) for n in g.nodes)
    imports = sorted([conv(u), conv(v)] for u, v, d in g.edges(data=True) if not d.get("inherits"))
    # the hierarchy as the graph holds it (its 'inherits' edges): must be the parent/child relation of the NAMES
    hier = sorted([conv(u), conv(v)] for u, v, d in g.edges(data=True) if d.get("inherits"))
    return {"modules": modules, "imports": imports, "hier": hier}


def candidate_imports(modules, allow_child_to_ancestor=True, importers=None):
    mods = [tuple(m) for m in modules]
    out = []
    for u in (importers if importers is not None else mods):
        for v in mods:
            if u == v:
                continue
            if anc(u, v) and len(v) == len(u) + 1:
                continue  # direct parent -> child collides with the hierarchy edge of the graph
            if anc(v, u) and not allow_child_to_ancestor:
                continue
            out.append((tuple(u), v))
    return out


def random_tree(rng: random.Random, n: int, depth: int = 4, root="r", pool=None):
    pool = pool or ["a", "b", "c", "d", "e", "f", "g", "h", "k", "m", "n", "p", "q", "s", "t", "u", "v", "w", "x", "y", "z"]
    mods = [(root,)]
    tries = 0
    while len(mods) < n and tries < 10 * n:
        tries += 1
        p = rng.choice(mods)
        if len(p) >= depth:
            continue
        c = p + (rng.choice(pool),)
        if c not in mods:
            mods.append(c)
    return sorted(mods)


PREFIX_POOL = ["a", "ab", "a_b", "b", "ba", "abc", "aa", "c", "ca", "d", "da", "ab_", "a1", "b1"]   # siblings prefix each other


def random_world(rng: random.Random, n_modules=None, n_imports=None, depth=4, leaf_importers=False, pool=None):
    n = n_modules or rng.randint(8, 30)
    mods = random_tree(rng, n, depth, pool=pool)
    if rng.random() < 0.4:
        # what a scanned tree looks like: some packages have an '__init__' module, a module like any other (an import
        # made by X.__init__ is an import made by a sub module of X)
        inner = sorted({m[:i] for m in mods for i in range(1, len(m))})
        mods = sorted(set(mods) | {p + ("__init__",) for p in inner if rng.random() < 0.35})
    w = World(mods, [])
    cand = candidate_imports(mods, importers=w.leaves() if leaf_importers else None)
    k = min(len(cand), n_imports if n_imports is not None else rng.randint(0, 60))
    return World(mods, rng.sample(cand, k))
