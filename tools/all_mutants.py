#!/usr/bin/env python3
"""tools/all_mutants.py [name-prefix ...]  - run every seeded change under /verif/seeded against the checks its meta.json
names, each in its own scratch worktree of /repo (outside /repo and /verif; /repo's working tree is never touched):
the checks are pointed at the worktree through PYTHONPATH.  Writes /verif/seeded/RESULTS.md."""
import json, os, re, subprocess, sys, time

SEEDED = "/verif/seeded"
WT = f"/tmp/verif-mutant-wt-{os.getpid()}"


def sh(cmd, **kw):
    return subprocess.run(cmd, shell=True, stdout=subprocess.PIPE, stderr=subprocess.STDOUT, text=True, **kw)


def main():
    only = sys.argv[1:]
    rows = []
    for name in sorted(os.listdir(SEEDED)):
        d = os.path.join(SEEDED, name)
        if not os.path.isdir(d) or (only and not any(name.startswith(o) for o in only)):
            continue
        meta = json.load(open(os.path.join(d, "meta.json")))
        if os.environ.get("MAX_ROUND") and int(meta.get("round", 1)) > int(os.environ["MAX_ROUND"]):
            continue
        if meta.get("obsolete_after"):
            rows.append((name, "-", f"superseded by fix {meta['obsolete_after']} (the edit no longer changes behaviour)", "", "", ""))
            continue
        caught = meta["detection"].split("MISSED")[-1]
        checks = sorted(set(re.findall(r"C\d\d", caught.split("not by")[0])) | {meta["property"]})
        if os.environ.get("ONLY_CATCHERS") or (meta.get("round") == 5 and os.environ.get("ROUND5_ONLY_CATCHERS")):
            checks = sorted(set(re.findall(r"C\d\d", caught.split("not by")[0]))) or [meta["property"]]
        sh(f"git -C /repo worktree remove --force {WT}; rm -rf {WT}; git -C /repo worktree prune")
        r = sh(f"git -C /repo worktree add --detach {WT} HEAD && git -C {WT} apply {d}/patch.diff")
        if r.returncode:
            rows.append((name, "-", "PATCH DOES NOT APPLY", r.stdout[-200:]))
            continue
        env = dict(os.environ, PYTHONPATH=f"{WT}/src", VERIF_NO_EVIDENCE="1")
        demo = sh(f"/venv/bin/python {d}/demo.py", env=env, cwd="/tmp")
        for c in checks:
            t0 = time.time()
            out = sh(f"./check {c} --tier quick", env=env, cwd="/verif")
            clauses = sorted(set(re.findall(r"replay=/verif/out/C\d\d-(.*?)-\d+\.json", out.stdout)))
            verdict = {0: "not detected", 1: "DETECTED", 2: "machinery failure"}.get(out.returncode, str(out.returncode))
            rows.append((name, c, verdict, ", ".join(clauses)[:300], f"demo exit {demo.returncode}", f"{time.time() - t0:.0f}s"))
            print(rows[-1], flush=True)
        sh(f"git -C /repo worktree remove --force {WT}; git -C /repo worktree prune")
    with open(os.path.join(SEEDED, "RESULTS.md") if not only else f"/tmp/RESULTS.partial.{os.getpid()}.md", "w") as f:
        f.write("# Seeded changes x checks (quick tier, seed 0)\n\nProduced by tools/all_mutants.py; every change is applied in a scratch "
                "worktree and the checks are pointed at it through PYTHONPATH.\n\n| seeded change | check | result | failing clauses | demo | time |\n|---|---|---|---|---|---|\n")
        for r in rows:
            f.write("| " + " | ".join(str(x) for x in r) + " |\n")


if __name__ == "__main__":
    main()
