#!/usr/bin/env python3
"""tools/results_rounds.py <log files of tools/all_mutants.py ...>  - appends to /verif/seeded/RESULTS.md a section for the
seeded changes of rounds >= 5: what each check said when the change arrived (meta.json, written by tools/intake.py) and,
where given, what a later re-run of tools/all_mutants.py said (the log files' printed rows)."""
import ast, glob, json, os, sys

rerun = {}
for f in sys.argv[1:]:
    for line in open(f):
        if line.startswith("("):
            try:
                r = ast.literal_eval(line.strip())
            except Exception:
                continue
            rerun[(r[0], r[1])] = r
rows = []
for mp in sorted(glob.glob("/verif/seeded/*/meta.json")):
    m = json.load(open(mp))
    if m.get("round", 0) < 5:
        continue
    name = os.path.basename(os.path.dirname(mp))
    arrival = m.get("on_arrival", {})
    checks = sorted(set(arrival) | {c for (n, c) in rerun if n == name})
    for c in checks:
        rr = rerun.get((name, c))
        rows.append((name, m["round"], c, arrival.get(c, "-"), f"{rr[2]}: {rr[3]}"[:260] if rr else "-",
                     (m.get("missing_on_arrival") or m.get("why_not") or "")[:200]))
p = "/verif/seeded/RESULTS.md"
s = open(p).read()
marker = "\n## Rounds 5 and 6\n"
s = s.split(marker)[0].rstrip("\n") + "\n"
s += marker + ("\nOn arrival = the quick check as it stood when the change was taken in (tools/intake.py); re-run = the quick check at the end "
               "of round 6 (tools/all_mutants.py), for the changes that led to a strengthening.\n\n"
               "| seeded change | round | check | on arrival | re-run at the end of round 6 | what was missing |\n|---|---|---|---|---|---|\n")
for r in rows:
    s += "| " + " | ".join(str(x).replace("|", "/") for x in r) + " |\n"
open(p, "w").write(s)
print(len(rows), "rows")
