#!/bin/bash
# tools/try_mutant.sh <patch.diff> <demo.py|-> <check ids...>
# Applies a seeded change in a scratch git worktree of /repo (outside /repo and /verif; /repo's working tree is never
# touched), runs the demonstration, the repository suite (without the 900 s directory-name fixture of
# tests/test_architecture.py) and the named checks against that worktree (PYTHONPATH), then removes the worktree.
set -u
patch="$1"; demo="$2"; shift 2
WT=/tmp/verif-try-wt-$$
cd /verif
trap 'git -C /repo worktree remove --force $WT >/dev/null 2>&1; git -C /repo worktree prune' EXIT
git -C /repo worktree add --detach $WT HEAD >/dev/null 2>&1 || { echo "cannot create worktree"; exit 2; }
if [ "$demo" != "-" ]; then
  echo "== demo on clean tree"; (cd /tmp && PYTHONPATH=$WT/src /venv/bin/python "$demo" >/tmp/demo.clean.out 2>&1; echo "exit=$? $(tail -1 /tmp/demo.clean.out)")
fi
git -C $WT apply "$patch" 2>/dev/null || git -C $WT apply --3way "$patch" || { echo "patch does not apply"; exit 2; }
if [ "$demo" != "-" ]; then
  echo "== demo on changed tree"; (cd /tmp && PYTHONPATH=$WT/src /venv/bin/python "$demo" >/tmp/demo.mut.out 2>&1; echo "exit=$? $(tail -2 /tmp/demo.mut.out | tr '\n' ' ')")
fi
if [ "${SKIP_SUITE:-0}" != "1" ]; then
  echo "== repository suite (minus tests/test_architecture.py)"
  (cd $WT && PYTHONPATH=$WT/src /venv/bin/python -m pytest -q -p no:cacheprovider --timeout=900 --continue-on-collection-errors --deselect tests/test_architecture.py 2>&1 | tail -1)
fi
for c in "$@"; do
  echo "== ./check $c --tier ${TIER:-quick}"
  VERIF_NO_EVIDENCE=1 PYTHONPATH=$WT/src ./check "$c" --tier "${TIER:-quick}" 2>&1 | grep -E "^(VIOLATION|OK|KNOWN-FINDING|MACHINERY|  clause)" | cut -c1-400
  echo "exit=${PIPESTATUS[0]}"
done
