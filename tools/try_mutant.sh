#!/bin/bash
# tools/try_mutant.sh <patch.diff> <demo.py|-> <check ids...>
# Applies a seeded change to /repo's working tree, runs the demonstration, the repository suite (without the
# 900 s directory-name fixture of tests/test_architecture.py, which fails on every checkout of this sandbox)
# and the named checks, then restores /repo.  Never commits anything.
set -u
patch="$1"; demo="$2"; shift 2
cd /verif
if [ -n "$(git -C /repo status --porcelain)" ]; then echo "/repo not clean"; exit 2; fi
trap 'git -C /repo checkout -- . ; git -C /repo clean -fdq src' EXIT
if [ "$demo" != "-" ]; then
  echo "== demo on clean tree"; PYTHONPATH=/repo/src /venv/bin/python "$demo" >/tmp/demo.clean.out 2>&1; echo "exit=$? $(tail -1 /tmp/demo.clean.out)"
fi
git -C /repo apply "$patch" || { echo "patch does not apply"; exit 2; }
if [ "$demo" != "-" ]; then
  echo "== demo on mutated tree"; PYTHONPATH=/repo/src /venv/bin/python "$demo" >/tmp/demo.mut.out 2>&1; echo "exit=$? $(tail -2 /tmp/demo.mut.out | tr '\n' ' ')"
fi
if [ "${SKIP_SUITE:-0}" != "1" ]; then
  echo "== repository suite (minus tests/test_architecture.py)"
  (cd /repo && /venv/bin/python -m pytest -q -p no:cacheprovider --timeout=900 --continue-on-collection-errors --deselect tests/test_architecture.py 2>&1 | tail -1)
fi
for c in "$@"; do
  echo "== ./check $c --tier ${TIER:-quick}"
  ./check "$c" --tier "${TIER:-quick}" 2>&1 | grep -E "^(VIOLATION|OK|KNOWN-FINDING|MACHINERY|  clause)" | cut -c1-400
  echo "exit=${PIPESTATUS[0]}"
done
