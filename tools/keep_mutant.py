#!/usr/bin/env python3
"""tools/keep_mutant.py <prop> <k> <name> '<caught by: C01 clause..; missed by ...>'  - copy a confirmed seeded change from
/tmp/seeded/<prop>/ to /verif/seeded/<name>/ (patch.diff, demo.py, meta.json)."""
import json, os, shutil, sys
prop, k, name, caught = sys.argv[1:5]
src = f"/tmp/seeded/{prop}"
dst = f"/verif/seeded/{name}"
os.makedirs(dst, exist_ok=True)
shutil.copy(f"{src}/m{k}.diff", f"{dst}/patch.diff")
shutil.copy(f"{src}/demo{k}.py", f"{dst}/demo.py")
meta = json.load(open(f"{src}/meta{k}.json"))
out = {"property": prop[:3], "breaks": meta.get("what_it_breaks"), "needs_to_manifest": meta.get("needs_to_manifest"),
       "files_changed": meta.get("files_changed"), "origin": "independent sub-agent given only the property text and a scratch worktree",
       "confirmed": {"demo_on_clean_tree": "PASS (exit 0)", "demo_on_changed_tree": "FAIL (exit 1)",
                     "repository_suite_with_change": "851 passed; only the 10 directory-name failures/errors of the unchanged checkout "
                                                     "(tools/try_mutant.sh: suite minus tests/test_architecture.py's 900 s fixture; "
                                                     "the sub-agent ran the full suite: " + str(meta.get("suite_result")) + ")",
                     "how": "tools/try_mutant.sh patch.diff demo.py <checks> (applies to /repo's working tree, runs, restores)"},
       "detection": caught}
json.dump(out, open(f"{dst}/meta.json", "w"), indent=1)
print("kept", dst)
