#!/usr/bin/env python3
"""tools/intake.py <round-dir> <prop> <name> <check ids...>

Confirms a seeded change written by a sub-agent (<round-dir>/<prop>/out/<name>/{patch.diff,demo.py,notes.json}) with
tools/try_mutant.sh (scratch worktree; demo on clean and changed tree; repository suite with the change; the named
checks against the changed tree) and, if the change is confirmed (demo passes clean / fails changed, suite passes),
keeps it as /verif/seeded/<prop>-<name>/ with a meta.json that records what was run and which checks detected it."""
import json, os, re, shutil, subprocess, sys

rd, prop, name = sys.argv[1:4]
checks = sys.argv[4:] or [prop]
src = f"{rd}/{prop}/out/{name}"
env = dict(os.environ)
r = subprocess.run(["/verif/tools/try_mutant.sh", f"{src}/patch.diff", f"{src}/demo.py", *checks], cwd="/verif",
                   stdout=subprocess.PIPE, stderr=subprocess.STDOUT, text=True, env=env)
out = r.stdout
print(out)
m_clean = re.search(r"== demo on clean tree\nexit=(\d+)", out)
m_mut = re.search(r"== demo on changed tree\nexit=(\d+)", out)
m_suite = re.search(r"== repository suite.*\n(.*)", out)
suite = m_suite.group(1).strip() if m_suite else ""
ok = bool(m_clean and m_mut and m_clean.group(1) == "0" and m_mut.group(1) != "0" and "passed" in suite
          and not re.search(r"\b[1-9]\d* failed", suite.replace("10 failed", "").replace("5 failed", "")))
det = {}
for c in checks:
    mm = re.search(rf"== \./check {c} .*?\n(.*?)exit=(\d+)", out, re.S)
    if mm:
        clauses = sorted(set(re.findall(r"clause=(\S+)", mm.group(1))))
        det[c] = {"exit": int(mm.group(2)), "clauses": clauses}
print("CONFIRMED" if ok else "NOT CONFIRMED", json.dumps(det))
if not ok:
    sys.exit(1)
notes = json.load(open(f"{src}/notes.json")) if os.path.exists(f"{src}/notes.json") else {}
dst = f"/verif/seeded/{prop}-{name}"
os.makedirs(dst, exist_ok=True)
shutil.copy(f"{src}/patch.diff", f"{dst}/patch.diff")
shutil.copy(f"{src}/demo.py", f"{dst}/demo.py")
caught = [c for c, d in det.items() if d["exit"] == 1]
missed = [c for c, d in det.items() if d["exit"] == 0]
meta = {"property": prop, "round": int(os.environ.get("ROUND", "4")), "breaks": notes.get("breaks"), "needs_to_manifest": notes.get("needs_to_manifest"),
        "files_changed": notes.get("files_changed"),
        "origin": "independent sub-agent given only the property text (and the names of earlier seeded changes to avoid) "
                  "and a scratch worktree",
        "confirmed": {"demo_on_clean_tree": "PASS (exit 0)", "demo_on_changed_tree": f"FAIL (exit {m_mut.group(1)})",
                      "repository_suite_with_change": suite + " (tools/try_mutant.sh: suite minus tests/test_architecture.py; "
                                                              "sub-agent's full run: " + str(notes.get("suite_result")) + ")",
                      "how": "tools/intake.py -> tools/try_mutant.sh patch.diff demo.py " + " ".join(checks)},
        "on_arrival": {c: ("DETECTED " + ", ".join(d["clauses"]) if d["exit"] == 1 else
                           "not detected" if d["exit"] == 0 else f"exit {d['exit']}") for c, d in det.items()},
        "detection": ("caught by " + "; ".join(f"{c} ({', '.join(det[c]['clauses'])})" for c in caught)) if caught
                     else "MISSED on arrival by " + ", ".join(missed)}
json.dump(meta, open(f"{dst}/meta.json", "w"), indent=1)
print("kept", dst, "|", meta["detection"])
